// ---- shared by verus/C07_decrease.rs and verus/C09.rs: DecreasePosition carriers, assumed callees and the helper units ----
verus! {
/// tokens closed by a decrease of `delta` usd: everything on a full close, else proportional, rounded up for longs, down for shorts
pub open spec fn sdt_spec(is_long: bool, tokens: int, usd: int, delta: int) -> int {
    if usd == delta { tokens } else if is_long { mul_div_ceil(tokens, delta, usd) } else { mul_div_floor(tokens, delta, usd) }
}
/// a decrease of zero usd closes zero tokens (so skipping the open-interest update for a zero usd delta is exact)
pub proof fn lemma_sdt_zero(l: bool, t: int, u: int) requires u > 0 ensures sdt_spec(l, t, u, 0) == 0 {
    assert(t * 0 == 0) by(nonlinear_arith);
    assert((u - 1) / u == 0) by(nonlinear_arith) requires u > 0;
    assert(0int / u == 0) by(nonlinear_arith) requires u > 0;
}
pub open spec fn sdt_of(p: Pos, delta: int) -> int { sdt_spec(p.long, p.size_in_tokens@, p.size_in_usd@, delta) }

impl Pos {
//@unit C07.PositionExt.size_delta_in_tokens
//@ file crates/model/src/position.rs
//@ within pub trait PositionExt<const DECIMALS: u8>: Position<DECIMALS>
//@ fn size_delta_in_tokens
//@ sig fn size_delta_in_tokens(&self, size_delta_usd: &Self::Num) -> crate::Result<Self::Num>
    pub fn size_delta_in_tokens(&self, size_delta_usd: &N) -> (r: Result<N, E>)
        ensures
            r.is_ok() ==> r.unwrap()@ == sdt_of(*self, size_delta_usd@),
//@body
    pub fn is_empty(&self) -> (r: bool) ensures r == (self.size_in_usd@ == 0 && self.size_in_tokens@ == 0 && self.collateral_amount@ == 0)
    { self.size_in_usd.is_zero() && self.size_in_tokens.is_zero() && self.collateral_amount.is_zero() }
}
impl Prices {
    #[verifier::external_body] pub fn is_valid(&self) -> (r: bool) { unimplemented!() }
}

//@struct crates/model/src/action/decrease_position/mod.rs :: pub enum DecreasePositionSwapType ::
#[derive(Clone, Copy)]
pub enum DecreasePositionSwapType { NoSwap, PnlTokenToCollateralToken, CollateralToPnlToken }
//@struct crates/model/src/action/decrease_position/mod.rs :: pub struct DecreasePositionFlags :: is_insolvent_close_allowed, is_liquidation_order, is_cap_size_delta_usd_allowed
#[derive(Clone, Copy)]
pub struct DecreasePositionFlags { pub is_insolvent_close_allowed: bool, pub is_liquidation_order: bool, pub is_cap_size_delta_usd_allowed: bool }
//@struct crates/model/src/action/decrease_position/mod.rs :: pub struct DecreasePositionParams<T> :: prices, initial_size_delta_usd, acceptable_price, initial_collateral_withdrawal_amount, flags, swap
#[derive(Clone, Copy)]
pub struct DecreasePositionParams { pub prices: Prices, pub initial_size_delta_usd: N, pub acceptable_price: Option<N>, pub initial_collateral_withdrawal_amount: N, pub flags: DecreasePositionFlags, pub swap: DecreasePositionSwapType }
impl DecreasePositionParams {
    pub fn is_liquidation_order(&self) -> (r: bool) ensures r == self.flags.is_liquidation_order { self.flags.is_liquidation_order }
    pub fn is_insolvent_close_allowed(&self) -> (r: bool) ensures r == self.flags.is_insolvent_close_allowed { self.flags.is_insolvent_close_allowed }
    pub fn is_cap_size_delta_usd_allowed(&self) -> (r: bool) ensures r == self.flags.is_cap_size_delta_usd_allowed { self.flags.is_cap_size_delta_usd_allowed }
    pub fn prices(&self) -> (r: &Prices) ensures *r == self.prices { &self.prices }
    pub fn swap(&self) -> (r: DecreasePositionSwapType) ensures r == self.swap { self.swap }
    pub fn initial_size_delta_usd(&self) -> (r: &N) ensures *r == self.initial_size_delta_usd { &self.initial_size_delta_usd }
    pub fn initial_collateral_withdrawal_amount(&self) -> (r: &N) ensures *r == self.initial_collateral_withdrawal_amount { &self.initial_collateral_withdrawal_amount }
}

impl DecreasePositionFlags {
//@unit C07.DecreasePositionFlags.init
//@ file crates/model/src/action/decrease_position/mod.rs
//@ within impl DecreasePositionFlags
//@ fn init
//@ sig fn init<T>(&mut self, size_in_usd: &T, size_delta_usd: &mut T) -> crate::Result<()>
    fn init(&mut self, size_in_usd: &N, size_delta_usd: &mut N) -> (r: Result<(), E>)
        ensures
            // the requested size is capped by (or rejected against) the position size
            r.is_ok() ==> final(size_delta_usd)@ <= size_in_usd@ && (old(size_delta_usd)@ <= size_in_usd@ ==> *final(size_delta_usd) == *old(size_delta_usd)),
//@body
}

/// the fields of `ProcessResult` / `ProcessCollateralResult` that `execute` reads before the report is built
pub struct ProcessResult { pub remaining_collateral_amount: N, pub output_amount: N, pub rest: u64 }
pub struct ProcessCollateralResult { pub size_delta_in_tokens: N, pub collateral: ProcessResult, pub rest: u64 }
/// carrier for `market().position_params()?`
//@struct crates/model/src/params/position.rs :: pub struct PositionParams<T> :: min_position_size_usd, min_collateral_value, min_collateral_factor, min_collateral_factor_for_liquidation, max_positive_position_impact_factor, max_negative_position_impact_factor, max_position_impact_factor_for_liquidations
pub struct PositionParams { pub min_position_size_usd: N, pub min_collateral_value: N, pub min_collateral_factor: N, pub min_collateral_factor_for_liquidation: Option<N>,
    pub max_positive_position_impact_factor: N, pub max_negative_position_impact_factor: N, pub max_position_impact_factor_for_liquidations: N }
pub open spec fn factor_for_liquidation(p: PositionParams) -> N { match p.min_collateral_factor_for_liquidation { Some(f) => f, None => p.min_collateral_factor } }
impl PositionParams {
    pub fn min_position_size_usd(&self) -> (r: &N) ensures *r == self.min_position_size_usd { &self.min_position_size_usd }
    pub fn min_collateral_value(&self) -> (r: &N) ensures *r == self.min_collateral_value { &self.min_collateral_value }
    pub fn min_collateral_factor(&self) -> (r: &N) ensures *r == self.min_collateral_factor { &self.min_collateral_factor }
    /// glue for `self.min_collateral_factor_for_liquidation.as_ref().unwrap_or_else(|| self.min_collateral_factor())`
    pub fn min_collateral_factor_for_liquidation(&self) -> (r: &N) ensures *r == factor_for_liquidation(*self)
    { match &self.min_collateral_factor_for_liquidation { Some(f) => f, None => &self.min_collateral_factor } }
}
/// what the verified part of `execute` hands to the (unverified) report-building tail
pub struct DecreaseOutcome { pub should_remove: bool, pub size_delta_usd: N, pub execution: ProcessCollateralResult }

//@struct crates/model/src/action/decrease_position/mod.rs :: pub struct DecreasePosition<P: Position<DECIMALS>, const DECIMALS: u8> :: position, params, withdrawable_collateral_amount, size_delta_usd
pub struct DecreasePosition { pub position: Pos, pub params: DecreasePositionParams, pub withdrawable_collateral_amount: N, pub size_delta_usd: N }

/// the decrease either closes everything, or leaves a strictly positive number of tokens
pub open spec fn close_ok(d: DecreasePosition) -> bool {
    d.size_delta_usd@ == d.position.size_in_usd@ || sdt_of(d.position, d.size_delta_usd@) < d.position.size_in_tokens@
}

impl DecreasePosition {
    /// ASSUMED (the collateral-sufficiency estimate in the middle of check_partial_close: pnl estimate, C09 material):
    /// it reads the position, may zero the withdrawable amount, and may promote the order to a full close - nothing else.
    #[verifier::external_body]
    fn estimate_remaining_collateral_and_maybe_close_all(&mut self) -> (r: Result<PositionParams, E>)
        ensures final(self).position == old(self).position, final(self).params == old(self).params,
            final(self).size_delta_usd == old(self).size_delta_usd || final(self).size_delta_usd == old(self).position.size_in_usd,
    { unimplemented!() }
    /// ASSUMED contract of `process_collateral` (collateral processor: C08 material). The text anchors of contracts/C07.py pin
    /// that neither it nor collateral_processor/ mentions the tracked pools or the position's size fields, and that
    /// `size_delta_in_tokens` is the third component of `pnl_value(prices, &self.size_delta_usd)` (= sdt_spec, proved in C11).
    #[verifier::external_body]
    fn process_collateral(&mut self) -> (r: Result<ProcessCollateralResult, E>)
        ensures final(self).params == old(self).params, final(self).size_delta_usd == old(self).size_delta_usd,
            final(self).position.mkt.t == old(self).position.mkt.t,
            final(self).position == (Pos { mkt: final(self).position.mkt, ..old(self).position }),
            r.is_ok() ==> r.unwrap().size_delta_in_tokens@ == sdt_of(old(self).position, old(self).size_delta_usd@),
    { unimplemented!() }

//@unit C07.DecreasePosition.try_new
//@ file crates/model/src/action/decrease_position/mod.rs
//@ within impl<const DECIMALS: u8, P: PositionMut<DECIMALS>> DecreasePosition<P, DECIMALS>
//@ fn try_new
//@ sig fn try_new( position: P, prices: Prices<P::Num>, mut size_delta_usd: P::Num, acceptable_price: Option<P::Num>, collateral_withdrawal_amount: P::Num, mut flags: DecreasePositionFlags, ) -> crate::Result<Self>
    pub fn try_new(position: Pos, prices: Prices, mut size_delta_usd: N, acceptable_price: Option<N>, collateral_withdrawal_amount: N, mut flags: DecreasePositionFlags) -> (r: Result<Self, E>)
        ensures
            // the action starts with a size that the position can bear, on the very position it was given
            r.is_ok() ==> r.unwrap().position == position && r.unwrap().size_delta_usd@ <= position.size_in_usd@
                && r.unwrap().withdrawable_collateral_amount@ <= position.collateral_amount@,
//@body

//@unit C07.DecreasePosition.will_size_remain
//@ file crates/model/src/action/decrease_position/mod.rs
//@ within impl<const DECIMALS: u8, P: PositionMut<DECIMALS>> DecreasePosition<P, DECIMALS>
//@ fn will_size_remain
//@ sig fn will_size_remain(&self) -> bool
    fn will_size_remain(&self) -> (r: bool)
        ensures r == (self.size_delta_usd@ < self.position.size_in_usd@)
//@body

//@unit C07.DecreasePosition.is_full_close
//@ file crates/model/src/action/decrease_position/mod.rs
//@ within impl<const DECIMALS: u8, P: PositionMut<DECIMALS>> DecreasePosition<P, DECIMALS>
//@ fn is_full_close
//@ sig fn is_full_close(&self) -> bool
    pub fn is_full_close(&self) -> (r: bool)
        ensures r == (self.size_delta_usd@ == self.position.size_in_usd@)
//@body

//@unit C07.DecreasePosition.is_remaining_size_too_small
//@ file crates/model/src/action/decrease_position/mod.rs
//@ within impl<const DECIMALS: u8, P: PositionMut<DECIMALS>> DecreasePosition<P, DECIMALS>
//@ fn is_remaining_size_too_small
//@ sig fn is_remaining_size_too_small(&self, min_position_size_usd: &P::Num) -> crate::Result<bool>
    fn is_remaining_size_too_small(&self, min_position_size_usd: &N) -> (r: Result<bool, E>)
        ensures
            // "not too small" guarantees that the decrease leaves a strictly positive number of tokens
            r.is_ok() && !r.unwrap() ==> sdt_of(self.position, self.size_delta_usd@) < self.position.size_in_tokens@
                && self.position.size_in_usd@ - self.size_delta_usd@ >= min_position_size_usd@,
//@body

//@unit C07.DecreasePosition.check_close
//@ file crates/model/src/action/decrease_position/mod.rs
//@ within impl<const DECIMALS: u8, P: PositionMut<DECIMALS>> DecreasePosition<P, DECIMALS>
//@ fn check_close
//@ sig fn check_close(&mut self) -> crate::Result<()>
    fn check_close(&mut self) -> (r: Result<(), E>)
        ensures final(self).position == old(self).position, final(self).params == old(self).params, final(self).size_delta_usd == old(self).size_delta_usd,
            final(self).withdrawable_collateral_amount@ <= old(self).withdrawable_collateral_amount@,
//@body

//@unit C07.DecreasePosition.check_partial_close
//@ file crates/model/src/action/decrease_position/mod.rs
//@ within impl<const DECIMALS: u8, P: PositionMut<DECIMALS>> DecreasePosition<P, DECIMALS>
//@ fn check_partial_close
//@ sig fn check_partial_close(&mut self) -> crate::Result<()>
//@ sub use num_traits::CheckedMul; =>
//@ sub (?s)let \(estimated_pnl, _, _\) = self.*?if remaining_value < params\.min_collateral_value\(\)\.to_signed\(\)\? \{\s*self\.size_delta_usd = self\.position\.size_in_usd\(\)\.clone\(\);\s*\} => let params = self.estimate_remaining_collateral_and_maybe_close_all()?;
    fn check_partial_close(&mut self) -> (r: Result<(), E>)
        requires old(self).size_delta_usd@ <= old(self).position.size_in_usd@
        ensures final(self).position == old(self).position, final(self).params == old(self).params,
            // the size is only ever promoted to a full close
            final(self).size_delta_usd == old(self).size_delta_usd || final(self).size_delta_usd == old(self).position.size_in_usd,
            // a decrease that would round the token size down to zero has been promoted to a full close
            r.is_ok() ==> close_ok(*final(self)),
//@body
}
} // verus!
