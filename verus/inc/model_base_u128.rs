//@prelude u128
//@include inc/specs_arith.rs
//@include inc/leaf_u128.rs
//@include inc/num_common.rs
//@include inc/fixed.rs
//@include inc/utils_common.rs
