// ---- spec functions written from the property statements (mathematical integers) ---------------
verus! {
/// floor(x * n / d)
pub open spec fn mul_div_floor(x: int, n: int, d: int) -> int recommends d > 0 { (x * n) / d }
/// ceil(x * n / d)
pub open spec fn mul_div_ceil(x: int, n: int, d: int) -> int recommends d > 0 { (x * n + d - 1) / d }
/// ceil(a / d)
pub open spec fn div_ceil(a: int, d: int) -> int recommends d > 0 { (a + d - 1) / d }
pub open spec fn fit_u(v: int) -> Option<N> { if 0 <= v <= umax() { Some(N(v as UW)) } else { None } }
pub open spec fn fit_s(v: int) -> Option<S> { if imin() <= v <= imax() { Some(S(v as IW)) } else { None } }
pub open spec fn sign(x: int) -> int { if x < 0 { -1 } else { 1 } }
/// fixed-point integer power: pow_fixed(b,0)=UNIT, pow_fixed(b,k+1)=floor(pow_fixed(b,k)*b/UNIT)
pub open spec fn pow_fixed(b: int, k: nat) -> int decreases k {
    if k == 0 { uunit() } else { (pow_fixed(b, (k - 1) as nat) * b) / uunit() }
}
/// `pow_fixed(b, j)` fits the unsigned type for every j <= k (the loop of checked_pow_fixed
/// fails at the first intermediate that does not fit).
pub open spec fn pow_fixed_fits(b: int, k: nat) -> bool decreases k {
    if k == 0 { true } else { pow_fixed_fits(b, (k - 1) as nat) && pow_fixed(b, k) <= umax() }
}
} // verus!
