// ---- shared by verus/C07.rs and verus/C09.rs: IncreasePosition carriers and assumed callees ----
verus! {
// ---- IncreasePosition ------------------------------------------------------------------------------------------------
//@struct crates/model/src/action/increase_position.rs :: pub struct IncreasePositionParams<T> :: collateral_increment_amount, size_delta_usd, acceptable_price, prices
#[derive(Clone, Copy)]
pub struct IncreasePositionParams { pub collateral_increment_amount: N, pub size_delta_usd: N, pub acceptable_price: Option<N>, pub prices: Prices }
//@struct crates/model/src/action/increase_position.rs :: pub struct ExecutionParams<Unsigned, Signed> :: price_impact_value, price_impact_amount, size_delta_in_tokens, execution_price
#[derive(Clone, Copy)]
pub struct ExecutionParams { pub price_impact_value: S, pub price_impact_amount: S, pub size_delta_in_tokens: N, pub execution_price: N }
impl ExecutionParams {
//@unit C07.ExecutionParams.price_impact_amount
//@ file crates/model/src/action/increase_position.rs
//@ within impl<T: Unsigned> ExecutionParams<T, T::Signed>
//@ fn price_impact_amount
//@ sig fn price_impact_amount(&self) -> &T::Signed
    pub fn price_impact_amount(&self) -> (r: &S) ensures *r == self.price_impact_amount
//@body
}
pub struct ExecutionParamsWithPriceImpact { pub execution: ExecutionParams, pub price_impact: PriceImpact }
/// opaque fee record (its arithmetic is C02)
pub struct PositionFees { pub tag: u64 }
/// the assumed fee functions are deterministic reads (uninterpreted functions of their arguments)
pub uninterp spec fn total_cost_of(f: PositionFees) -> int;
pub uninterp spec fn fees_of_position(p: Pos, collateral_price: Price, size_delta_usd: int, balance_change: BalanceChange, is_liquidation: bool) -> PositionFees;
pub open spec fn collateral_price_of(p: Pos, prices: Prices) -> Price { if p.collateral_long { prices.long_token_price } else { prices.short_token_price } }
impl PositionFees {
    #[verifier::external_body] pub fn total_cost_amount(&self) -> (r: Result<N, E>) ensures r.is_ok() ==> r.unwrap()@ == total_cost_of(*self) { unimplemented!() }
    #[verifier::external_body] pub fn for_receiver(&self) -> (r: Result<N, E>) { unimplemented!() }
    #[verifier::external_body] pub fn for_pool(&self) -> (r: Result<N, E>) { unimplemented!() }
}
pub struct CollateralDelta { pub tag: u64 }
impl CollateralDelta {
    #[verifier::external_body] pub fn new(next_size_in_usd: N, next_collateral_amount: N, realized_pnl_value: S, open_interest_delta: S) -> (r: CollateralDelta) { unimplemented!() }
}
pub struct WillCollateralBeSufficient { pub ok: bool }
impl WillCollateralBeSufficient { pub fn is_sufficient(&self) -> (r: bool) ensures r == self.ok { self.ok } }
//@struct crates/model/src/action/increase_position.rs :: pub struct IncreasePositionReport<Unsigned, Signed> :: params, execution, collateral_delta_amount, fees, claimable_funding_long_token_amount, claimable_funding_short_token_amount
pub struct IncreasePositionReport { pub params: IncreasePositionParams, pub execution: ExecutionParams, pub collateral_delta_amount: S, pub fees: PositionFees }
impl IncreasePositionReport {
    /// glue: the report constructor copies its arguments (the two claimable amounts are read from the fees)
    pub fn new(params: IncreasePositionParams, execution: ExecutionParams, collateral_delta_amount: S, fees: PositionFees) -> (r: IncreasePositionReport)
        ensures r.params == params, r.execution == execution, r.collateral_delta_amount == collateral_delta_amount
    { IncreasePositionReport { params, execution, collateral_delta_amount, fees } }
}
impl Pos {
    /// ASSUMED: arbitrary fees / sufficiency verdict (their arithmetic is C02 / C09 material)
    #[verifier::external_body]
    pub fn position_fees(&self, collateral_price: &Price, size_delta_usd: &N, balance_change: BalanceChange, is_liquidation: bool) -> (r: Result<PositionFees, E>)
        ensures r.is_ok() ==> r.unwrap() == fees_of_position(*self, *collateral_price, size_delta_usd@, balance_change, is_liquidation)
    { unimplemented!() }
    #[verifier::external_body]
    pub fn will_collateral_be_sufficient(&self, prices: &Prices, delta: &CollateralDelta) -> (r: Result<WillCollateralBeSufficient, E>) { unimplemented!() }
//@unit C07.PositionExt.collateral_price
//@ file crates/model/src/position.rs
//@ within pub trait PositionExt<const DECIMALS: u8>: Position<DECIMALS>
//@ fn collateral_price
//@ sig fn collateral_price<'a>(&self, prices: &'a Prices<Self::Num>) -> &'a Price<Self::Num>
    pub fn collateral_price<'a>(&self, prices: &'a Prices) -> (r: &'a Price)
        ensures *r == collateral_price_of(*self, *prices)
//@body
}

pub struct IncreasePosition { pub position: Pos, pub params: IncreasePositionParams }
impl IncreasePosition {
    /// the non-trivial part of get_execution_params (price impact, execution price): ASSUMED arbitrary
    #[verifier::external_body]
    fn get_execution_params_for_nonzero_size(&self) -> (r: Result<ExecutionParamsWithPriceImpact, E>) { unimplemented!() }
    fn default_price_impact() -> (r: PriceImpact) { PriceImpact { value: S(0), balance_change: BalanceChange::Unchanged } }
}
} // verus!
