// ---- N-level wrappers over the leaf + trait-default methods of gmsol_model::num (R3) -----------
verus! {

impl N {
    /// Monomorphisation glue (R1/R3): `T::checked_mul_div` at `T = UW` is the leaf impl above.
    pub fn checked_mul_div(&self, numerator: &N, denominator: &N) -> (r: Option<N>)
        ensures
            denominator@ == 0 ==> r.is_none(),
            denominator@ != 0 ==> r == fit_u(mul_div_floor(self@, numerator@, denominator@)),
    {
        proof { if denominator@ != 0 { lemma_mul_nonnegative(self@, numerator@); lemma_div_pos_bound(self@ * numerator@, denominator@); } }
        match self.0.checked_mul_div(&numerator.0, &denominator.0) { Some(x) => Some(N(x)), None => None }
    }
    pub fn checked_mul_div_ceil(&self, numerator: &N, denominator: &N) -> (r: Option<N>)
        ensures
            denominator@ == 0 ==> r.is_none(),
            denominator@ != 0 ==> r == fit_u(mul_div_ceil(self@, numerator@, denominator@)),
    {
        proof { if denominator@ != 0 { lemma_mul_nonnegative(self@, numerator@); lemma_div_pos_bound(self@ * numerator@ + denominator@ - 1, denominator@); } }
        match self.0.checked_mul_div_ceil(&numerator.0, &denominator.0) { Some(x) => Some(N(x)), None => None }
    }

//@unit C01.W.to_signed
//@ file crates/model/src/num.rs
//@ within pub trait Unsigned
//@ fn to_signed
//@ sig fn to_signed(&self) -> crate::Result<Self::Signed>
    pub fn to_signed(&self) -> (r: Result<S, E>)
        ensures r.is_ok() <==> self@ <= imax(),
                r.is_ok() ==> r.unwrap()@ == self@,
//@body

//@unit C01.W.to_signed_with_sign
//@ file crates/model/src/num.rs
//@ within pub trait Unsigned
//@ fn to_signed_with_sign
//@ sig fn to_signed_with_sign(&self, negative: bool) -> crate::Result<Self::Signed>
    pub fn to_signed_with_sign(&self, negative: bool) -> (r: Result<S, E>)
        ensures r.is_ok() <==> self@ <= imax(),
                r.is_ok() ==> r.unwrap()@ == (if negative { -self@ } else { self@ }),
//@body

//@unit C01.W.to_opposite_signed
//@ file crates/model/src/num.rs
//@ within pub trait Unsigned
//@ fn to_opposite_signed
//@ sig fn to_opposite_signed(&self) -> crate::Result<Self::Signed>
    pub fn to_opposite_signed(&self) -> (r: Result<S, E>)
        ensures r.is_ok() <==> self@ <= imax(),
                r.is_ok() ==> r.unwrap()@ == -self@,
//@body

//@unit C01.W.checked_signed_sub
//@ file crates/model/src/num.rs
//@ within pub trait Unsigned
//@ fn checked_signed_sub
//@ sig fn checked_signed_sub(self, other: Self) -> crate::Result<Self::Signed>
    pub fn checked_signed_sub(self, other: N) -> (r: Result<S, E>)
        ensures r.is_ok() <==> -imax() <= self@ - other@ <= imax(),
                r.is_ok() ==> r.unwrap()@ == self@ - other@,
//@body

//@unit C01.W.checked_add_with_signed
//@ file crates/model/src/num.rs
//@ within pub trait Unsigned
//@ fn checked_add_with_signed
//@ sig fn checked_add_with_signed(&self, other: &Self::Signed) -> Option<Self>
    pub fn checked_add_with_signed(&self, other: &S) -> (r: Option<N>)
        ensures r == fit_u(self@ + other@),
//@body

//@unit C01.W.checked_sub_with_signed
//@ file crates/model/src/num.rs
//@ within pub trait Unsigned
//@ fn checked_sub_with_signed
//@ sig fn checked_sub_with_signed(&self, other: &Self::Signed) -> Option<Self>
    pub fn checked_sub_with_signed(&self, other: &S) -> (r: Option<N>)
        ensures r == fit_u(self@ - other@),
//@body

//@unit C01.W.checked_mul_with_signed
//@ file crates/model/src/num.rs
//@ within pub trait Unsigned
//@ fn checked_mul_with_signed
//@ sig fn checked_mul_with_signed(&self, other: &Self::Signed) -> Option<Self::Signed>
//@ top :: proof { lemma_mul_signed_abs(self@, other@); }
    pub fn checked_mul_with_signed(&self, other: &S) -> (r: Option<S>)
        ensures
            // failure set pinned exactly: the magnitude of the product must fit the positive range
            r.is_some() <==> self@ * abs(other@) <= imax(),
            r.is_some() ==> r.unwrap()@ == self@ * other@,
//@body

//@unit C01.W.as_divisor_to_round_up_magnitude_div
//@ file crates/model/src/num.rs
//@ within pub trait Unsigned
//@ fn as_divisor_to_round_up_magnitude_div
//@ sig fn as_divisor_to_round_up_magnitude_div(&self, dividend: &Self::Signed) -> Option<Self::Signed>
    pub fn as_divisor_to_round_up_magnitude_div(&self, dividend: &S) -> (r: Option<S>)
        ensures
            r.is_some() <==> (0 < self@ <= imax()
                && (if dividend@ < 0 { dividend@ - self@ >= imin() } else { dividend@ + self@ <= imax() })),
            // magnitude rounded up, sign of the dividend kept
            r.is_some() ==> r.unwrap()@ == sign(dividend@) * div_ceil(abs(dividend@), self@),
//@body

//@unit C01.W.checked_round_up_div
//@ file crates/model/src/num.rs
//@ within pub trait Unsigned
//@ fn checked_round_up_div
//@ sig fn checked_round_up_div(&self, divisor: &Self) -> Option<Self>
    pub fn checked_round_up_div(&self, divisor: &N) -> (r: Option<N>)
        ensures
            r.is_some() <==> (divisor@ != 0 && self@ + divisor@ <= umax()),
            r.is_some() ==> r.unwrap()@ == div_ceil(self@, divisor@),
//@body

//@unit C01.W.bound_magnitude
//@ file crates/model/src/num.rs
//@ within pub trait Unsigned
//@ fn bound_magnitude
//@ sig fn bound_magnitude(value: &Self::Signed, min: &Self, max: &Self) -> crate::Result<Self::Signed>
    pub fn bound_magnitude(value: &S, min: &N, max: &N) -> (r: Result<S, E>)
        ensures
            min@ > max@ ==> r.is_err(),
            // clamp target not representable => reported failure
            (min@ <= max@ && abs(value@) < min@ && min@ > imax()) ==> r.is_err(),
            (min@ <= max@ && abs(value@) > max@ && max@ > imax()) ==> r.is_err(),
            (min@ <= max@ && abs(value@) < min@ && min@ <= imax()) ==> r.is_ok() && r.unwrap()@ == sign(value@) * min@,
            (min@ <= max@ && abs(value@) >= min@ && abs(value@) > max@ && max@ <= imax()) ==> r.is_ok() && r.unwrap()@ == sign(value@) * max@,
            (min@ <= max@ && min@ <= abs(value@) <= max@) ==> r.is_ok() && r.unwrap()@ == value@,
            // summary: |result| within [min,max], sign kept (zero counts as positive)
            r.is_ok() ==> min@ <= abs(r.unwrap()@) <= max@ && (value@ < 0 ==> r.unwrap()@ <= 0) && (value@ >= 0 ==> r.unwrap()@ >= 0),
//@body

//@unit C01.W.checked_mul_div_with_signed_numerator
//@ file crates/model/src/num.rs
//@ within pub trait MulDiv: Unsigned
//@ fn checked_mul_div_with_signed_numerator
//@ sig fn checked_mul_div_with_signed_numerator( &self, numerator: &Self::Signed, denominator: &Self, ) -> Option<Self::Signed>
//@ sub let ans = self => let ans: S = self
//@ top :: proof { if numerator@ == 0 { lemma_mul_basics(self@); if denominator@ != 0 { lemma_div_basics(denominator@); } } }
    pub fn checked_mul_div_with_signed_numerator(&self, numerator: &S, denominator: &N) -> (r: Option<S>)
        ensures
            r.is_some() <==> (denominator@ != 0 && mul_div_floor(self@, abs(numerator@), denominator@) <= imax()),
            // magnitude floored (i.e. truncation toward zero), sign of the numerator
            r.is_some() ==> r.unwrap()@ == (if numerator@ < 0 { -mul_div_floor(self@, abs(numerator@), denominator@) } else { mul_div_floor(self@, abs(numerator@), denominator@) }),
//@body
}

pub proof fn lemma_mul_signed_abs(a: int, b: int)
    requires a >= 0
    ensures a * abs(b) >= 0, b < 0 ==> a * b == -(a * abs(b)), b >= 0 ==> a * b == a * abs(b)
{
    lemma_mul_nonnegative(a, abs(b));
    if b < 0 { lemma_mul_unary_negation(a, -b); }
}

} // verus!
