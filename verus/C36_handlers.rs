//@include C36.rs
// =================================================================================================
// C36 (handlers)  programs/timelock/src/instructions/instruction_buffer.rs :: approve_instruction, approve_instructions,
//                 validate_timelocked_role, unchecked_execute_instruction   (whole bodies; the header state machine of C36.rs is
//                 included and re-verified). Loaders are projections; the role check is one CPI to the store program (assumed to
//                 answer `Store::has_role`, C18); `invoke_signed` of the buffered instruction is one ghost-ledger entry.
// =================================================================================================
verus! {
/// role names: the name given to the instruction, and its timelocked counterpart (`roles::timelocked_role(name)`: a pure string
/// function, uninterpreted)
#[derive(Clone, Copy)] pub struct RoleStr { pub id: u64 }
pub uninterp spec fn timelocked_of(r: RoleStr) -> RoleStr;
pub struct Roles;
impl Roles { #[verifier::external_body] pub fn timelocked_role(r: &RoleStr) -> (o: RoleStr) ensures o == timelocked_of(*r) { unimplemented!() } }
/// the store's role table as a deterministic read (its meaning: C18)
pub struct StoreAcc { pub tag: u64 }
pub uninterp spec fn holds_role(s: StoreAcc, who: Pubkey, role: RoleStr) -> Option<bool>;
impl StoreAcc {
    #[verifier::external_body]
    pub fn has_role(&self, who: &Pubkey, role: &RoleStr) -> (r: Result<bool, E>)
        ensures r.is_ok() == holds_role(*self, *who, *role).is_some(), r.is_ok() ==> r.unwrap() == holds_role(*self, *who, *role).unwrap()
    { unimplemented!() }
}
pub struct ExecutorAcc { pub key: Pubkey, pub role_name: Option<RoleStr>, pub wallet_bump: u8 }
impl ExecutorAcc {
    pub fn key(&self) -> (r: Pubkey) ensures r == self.key { self.key }
    pub fn role_name(&self) -> (r: Result<&RoleStr, E>) ensures r.is_ok() == self.role_name.is_some(), r.is_ok() ==> *r.unwrap() == self.role_name.unwrap()
    { match &self.role_name { Some(x) => Ok(x), None => Err(E::Other) } }
}
pub struct Instr { pub tag: u64 }
/// the instruction buffer account: its header (C36.rs) and the buffered program / accounts / data as one opaque body
#[derive(Clone, Copy)]
pub struct InstructionAcc { pub header: InstructionHeader, pub body: u64 }
impl InstructionAcc {
    pub fn header(&self) -> (r: &InstructionHeader) ensures *r == self.header { &self.header }
    /// `InstructionAccess::to_instruction(false)`: builds the solana Instruction from the buffer (not under contract)
    #[verifier::external_body] pub fn to_instruction(&self, mark_executor_wallet_as_signer: bool) -> (r: Result<Instr, E>) { unimplemented!() }
    /// glue for `AccountLoader<InstructionHeader>::load_mut()?.approve(approver)`
    pub fn approve(&mut self, approver: Pubkey) -> (r: Result<(), E>)
        ensures (header_wf(old(self).header) && old(self).header.flags.approved) ==> r.is_err(), r.is_ok() ==> header_wf(final(self).header),
            r.is_err() ==> *final(self) == *old(self),
            r.is_ok() ==> final(self).header.flags.approved && final(self).header.approver == approver && approver != DEFAULT_PUBKEY && final(self).body == old(self).body
                && final(self).header.executor == old(self).header.executor && final(self).header.approved_at == now_spec(),
    { self.header.approve(approver) }
    pub fn executor(&self) -> (r: &Pubkey) ensures *r == self.header.executor { &self.header.executor }
}
pub struct Signer { pub tag: u64 }
pub struct ExecutorWalletSigner;
impl ExecutorWalletSigner { #[verifier::external_body] pub fn new(executor: Pubkey, bump: u8) -> (r: Signer) { unimplemented!() } }
pub struct AuthorityAcc { pub key: Pubkey }
impl AuthorityAcc { pub fn key(&self) -> (r: Pubkey) ensures r == self.key { self.key } }
pub struct TimelockConfigAcc { pub cfg: TimelockConfig }
impl TimelockConfigAcc { pub fn delay(&self) -> (r: u32) ensures r == self.cfg.delay { self.cfg.delay() } }
pub struct Accounts { pub authority: AuthorityAcc, pub store: StoreAcc, pub executor: ExecutorAcc, pub instruction: InstructionAcc, pub timelock_config: TimelockConfigAcc }
/// `remaining` are the extra instruction-buffer accounts of approve_instructions (writable flag + header); `invoked` is the ghost
/// ledger of buffered instructions handed to invoke_signed
#[derive(Clone, Copy)]
pub struct Remaining { pub is_writable: bool, pub acc: InstructionAcc }
pub struct Ctx { pub accounts: Accounts, pub remaining: Vec<Remaining>, pub invoked: Ghost<Seq<InstructionAcc>> }
pub struct CpiAuthenticate;
impl CpiAuthenticate {
    /// ASSUMED: the `check_role` CPI to the store program answers Store::has_role(authority, role) and fails with PermissionDenied
    /// (on_error) unless it is true
    #[verifier::external_body]
    pub fn only(ctx: &Ctx, role: &RoleStr) -> (r: Result<(), E>)
        ensures r.is_ok() ==> holds_role(ctx.accounts.store, ctx.accounts.authority.key, *role) == Some(true)
    { unimplemented!() }
}
impl Ctx {
    /// ASSUMED: `invoke_signed(&ix, remaining_accounts, &[&signer.as_seeds()])`: one ghost-ledger entry, nothing else of this context
    #[verifier::external_body]
    pub fn invoke_signed_buffered(&mut self, ix: &Instr, signer: &Signer) -> (r: Result<(), E>)
        ensures final(self).accounts == old(self).accounts, final(self).remaining == old(self).remaining,
            r.is_ok() ==> final(self).invoked@ == old(self).invoked@.push(old(self).accounts.instruction),
            r.is_err() ==> final(self).invoked@ == old(self).invoked@,
    { unimplemented!() }
}

//@unit C36.validate_timelocked_role
//@ file programs/timelock/src/instructions/instruction_buffer.rs
//@ fn validate_timelocked_role
//@ sig fn validate_timelocked_role<'info>( ctx: &Context<impl CpiAuthenticate<'info>>, role: &str, ) -> Result<()>
//@ sub roles::timelocked_role\(role\) => Roles::timelocked_role(role)
fn validate_timelocked_role(ctx: &Ctx, role: &RoleStr) -> (r: Result<(), E>)
    ensures
        // passes only if the signer holds the TIMELOCKED counterpart of the role
        r.is_ok() ==> holds_role(ctx.accounts.store, ctx.accounts.authority.key, timelocked_of(*role)) == Some(true),
//@body

//@unit C36.approve_instruction
//@ file programs/timelock/src/instructions/instruction_buffer.rs
//@ fn approve_instruction
//@ sig fn approve_instruction(ctx: Context<ApproveInstruction>, role: &str) -> Result<()>
//@ sub validate_timelocked_role\(&ctx, role\) => validate_timelocked_role(&*ctx, role)
//@ sub \.load_mut\(\)\? =>
pub fn approve_instruction(ctx: &mut Ctx, role: &RoleStr) -> (r: Result<(), E>)
    ensures
        // an approval is recorded only for a signer holding the timelocked role, records that signer and the current time, and an
        // already approved buffer is never approved again; a rejected call changes nothing
        r.is_ok() ==> holds_role(old(ctx).accounts.store, old(ctx).accounts.authority.key, timelocked_of(*role)) == Some(true)
            && final(ctx).accounts.instruction.header.flags.approved && final(ctx).accounts.instruction.header.approver == old(ctx).accounts.authority.key
            && final(ctx).accounts.instruction.header.approved_at == now_spec() && final(ctx).accounts.instruction.body == old(ctx).accounts.instruction.body,
        header_wf(old(ctx).accounts.instruction.header) && old(ctx).accounts.instruction.header.flags.approved ==> r.is_err(),
        r.is_err() ==> final(ctx).accounts.instruction == old(ctx).accounts.instruction,
//@body

//@unit C36.approve_instructions
//@ file programs/timelock/src/instructions/instruction_buffer.rs
//@ fn approve_instructions
//@ sig fn approve_instructions<'info>( ctx: Context<'_, '_, 'info, 'info, ApproveInstructions<'info>>, role: &str, ) -> Result<()>
//@ sub validate_timelocked_role\(&ctx, role\) => validate_timelocked_role(&*ctx, role)
//@ sub for account in ctx\.remaining_accounts \{ => let mut _i: usize = 0; while _i < ctx.remaining.len() { let mut account = ctx.remaining[_i]; _i += 1;
//@ sub ErrorCode::AccountNotMutable => E::Other
//@ sub let loader = AccountLoader::<InstructionHeader>::try_from\(account\)\?; => let loader = &mut account.acc;
//@ subopt \.load\(\)\? =>
//@ sub loader\.load_mut\(\)\?\.approve\(approver\)\?; => loader.approve(approver)?; ctx.remaining.set(_i - 1, account);
//@ loop 1: invariant _i <= ctx.remaining.len(), ctx.remaining.len() == old(ctx).remaining.len(), ctx.accounts == old(ctx).accounts, executor == old(ctx).accounts.executor.key, approver == old(ctx).accounts.authority.key, forall|j: int| #![trigger ctx.remaining@[j]] 0 <= j < _i ==> ctx.remaining@[j].acc.header.flags.approved && ctx.remaining@[j].acc.header.approver == approver && ctx.remaining@[j].acc.header.executor == executor && old(ctx).remaining@[j].acc.header.executor == executor && ctx.remaining@[j].acc.body == old(ctx).remaining@[j].acc.body, forall|j: int| _i <= j < ctx.remaining.len() ==> ctx.remaining@[j] == old(ctx).remaining@[j], decreases ctx.remaining.len() - _i,
pub fn approve_instructions(ctx: &mut Ctx, role: &RoleStr) -> (r: Result<(), E>)
    ensures
        // batch approval: only for a signer holding the timelocked role, only for buffers of THIS executor, each recorded as approved by
        // the signer, none of the buffered instructions altered
        r.is_ok() ==> holds_role(old(ctx).accounts.store, old(ctx).accounts.authority.key, timelocked_of(*role)) == Some(true)
            && final(ctx).remaining.len() == old(ctx).remaining.len()
            && forall|j: int| #![trigger final(ctx).remaining@[j]] 0 <= j < final(ctx).remaining.len() ==> final(ctx).remaining@[j].acc.header.flags.approved
                && final(ctx).remaining@[j].acc.header.approver == old(ctx).accounts.authority.key
                && final(ctx).remaining@[j].acc.header.executor == old(ctx).accounts.executor.key
                && old(ctx).remaining@[j].acc.header.executor == old(ctx).accounts.executor.key
                && final(ctx).remaining@[j].acc.body == old(ctx).remaining@[j].acc.body,
//@body

//@unit C36.unchecked_execute_instruction
//@ file programs/timelock/src/instructions/instruction_buffer.rs
//@ fn unchecked_execute_instruction
//@ sig fn unchecked_execute_instruction(ctx: Context<ExecuteInstruction>) -> Result<()>
//@ sub let remaining_accounts = ctx\.remaining_accounts; =>
//@ sub let instruction = ctx\.accounts\.instruction\.load_instruction\(\)\?; => let instruction = &ctx.accounts.instruction;
//@ sub let store = ctx\.accounts\.store\.load\(\)\?; => let store = &ctx.accounts.store;
//@ sub \.load\(\)\? =>
//@ subopt roles::timelocked_role\( => Roles::timelocked_role(
//@ sub (?s)invoke_signed\(\s*&instruction\.to_instruction\(false\)\.map_err\(\|err\| \{.*?\}\)\?,\s*remaining_accounts,\s*&\[&signer\.as_seeds\(\)\],\s*\)\?; => let ix = ctx.accounts.instruction.to_instruction(false)?; ctx.invoke_signed_buffered(&ix, &signer)?;
pub fn unchecked_execute_instruction(ctx: &mut Ctx) -> (r: Result<(), E>)
    ensures
        // a buffered instruction is invoked only if it is approved, its approver STILL holds the timelocked role of the executor's
        // role, and at least the configured delay has passed since the approval; then exactly this buffer is invoked, once
        r.is_ok() ==> ({
            let a = old(ctx).accounts; let h = a.instruction.header;
            &&& h.flags.approved && h.approver != DEFAULT_PUBKEY && a.executor.role_name.is_some()
            &&& holds_role(a.store, h.approver, timelocked_of(a.executor.role_name.unwrap())) == Some(true)
            &&& now_spec() - h.approved_at >= a.timelock_config.cfg.delay
            &&& final(ctx).invoked@ == old(ctx).invoked@.push(a.instruction)
        }),
        // otherwise nothing is invoked
        r.is_err() ==> final(ctx).invoked@ == old(ctx).invoked@,
        final(ctx).accounts == old(ctx).accounts,
//@body

// ---- InstructionLoader::load_and_init_instruction: which accounts of a buffered instruction may be marked as signers ------------
/// one stored account of the buffered instruction
#[derive(Clone, Copy)]
pub struct InstructionAccountFlags { pub signer: bool, pub writable: bool }
pub enum InstructionAccountFlag { Signer, Writable }
impl InstructionAccountFlags {
    pub fn set_flag(&mut self, flag: InstructionAccountFlag, value: bool) -> (r: bool)
        ensures *final(self) == (match flag { InstructionAccountFlag::Signer => InstructionAccountFlags { signer: value, ..*old(self) }, InstructionAccountFlag::Writable => InstructionAccountFlags { writable: value, ..*old(self) } })
    { match flag { InstructionAccountFlag::Signer => { let o = self.signer; self.signer = value; o } InstructionAccountFlag::Writable => { let o = self.writable; self.writable = value; o } } }
}
//@struct crates/utils/src/instruction.rs :: pub struct InstructionAccount :: flags, pubkey
#[derive(Clone, Copy)]
pub struct InstructionAccount { pub pubkey: Pubkey, pub flags: InstructionAccountFlags }
/// the account area of the buffer (`dynamic_access::get_mut::<InstructionAccount>(&mut accounts, idx)`: the idx-th slot, if any)
pub struct AccountsArea { pub slots: Vec<InstructionAccount> }
pub fn get_mut_slot(a: &mut AccountsArea, idx: usize) -> (r: Option<&mut InstructionAccount>)
    ensures r.is_some() == (idx < old(a).slots.len()),
        r.is_some() ==> *r.unwrap() == old(a).slots@[idx as int] && final(a).slots@ == old(a).slots@.update(idx as int, *final(r.unwrap())),
        r.is_none() ==> *final(a) == *old(a),
{ if idx < a.slots.len() { Some(&mut a.slots[idx]) } else { None } }
/// an account passed to the instruction (`AccountInfo`): its address and its writable flag
#[derive(Clone, Copy)]
pub struct AccInfo { pub key: Pubkey, pub is_writable: bool }
impl AccInfo { pub fn key(&self) -> (r: Pubkey) ensures r == self.key { self.key } }
/// `signers.contains(&idx)` on a slice of u16 (verified helper: linear search)
pub fn slice_contains_u16(s: &[u16], x: u16) -> (r: bool) ensures r == s@.contains(x)
{
    let mut i: usize = 0;
    while i < s.len() invariant i <= s.len(), forall|j: int| 0 <= j < i ==> s@[j] != x, decreases s.len() - i
    { if s[i] == x { return true; } i += 1; }
    false
}
pub struct BufferHeader { pub executor: Pubkey, pub wallet_bump: u8 }
/// the executor wallet PDA of a header (create_executor_wallet_pda: a deterministic function of executor and bump)
pub uninterp spec fn wallet_of(h: BufferHeader) -> Pubkey;
impl BufferHeader { #[verifier::external_body] pub fn wallet(&self) -> (r: Result<Pubkey, E>) ensures r.is_ok() ==> r.unwrap() == wallet_of(*self) { unimplemented!() } }
pub struct LoaderAcc { pub tag: u64 }
impl LoaderAcc {
    /// ASSUMED (the first block: header initialisation through load_init / exit, and the zero-copy split of the account data into
    /// header, data area and accounts area with the data copied): hands out the header and an accounts area with one slot per account
    #[verifier::external_body]
    fn init_header_and_split(&self, executor: Pubkey, wallet_bump: u8, instruction_data: &[u8], n_accounts: usize) -> (r: Result<(BufferHeader, AccountsArea), E>)
        ensures r.is_ok() ==> r.unwrap().0 == (BufferHeader { executor, wallet_bump })
    { unimplemented!() }

//@unit C36.InstructionLoader.load_and_init_instruction
//@ file programs/timelock/src/states/instruction.rs
//@ within impl<'info> InstructionLoader<'info> for AccountLoader<'info, InstructionHeader>
//@ fn load_and_init_instruction
//@ sig fn load_and_init_instruction( &self, executor: Pubkey, wallet_bump: u8, rent_receiver: Pubkey, program_id: Pubkey, instruction_data: &[u8], instruction_accounts: &[AccountInfo<'info>], signers: &[u16], ) -> Result<InstructionRef>
//@ sub (?s)use gmsol_store::utils::dynamic_access::get_mut;.*?data\.copy_from_slice\(instruction_data\); => { let _hs = self.init_header_and_split(executor, wallet_bump, instruction_data, instruction_accounts.len())?; let header = _hs.0; let mut accounts = _hs.1;
//@ subopt for \(idx, account\) in instruction_accounts\.iter\(\)\.enumerate\(\) \{ => let mut _c: usize = 0; while _c < instruction_accounts.len() { let account = &instruction_accounts[_c]; let idx = _c; _c += 1; let ghost slots0 = accounts.slots@;
//@ subopt let dst = get_mut::<InstructionAccount>\(&mut accounts, idx\) => { let dst = get_mut_slot(&mut accounts, idx)
//@ subopt \.set_flag\(InstructionAccountFlag::Writable, account\.is_writable\); => .set_flag(InstructionAccountFlag::Writable, account.is_writable); } proof { assert forall|j: int| 0 <= j < _c implies #[trigger] stored_ok_at(accounts.slots@, instruction_accounts@, signers@, j, wallet_of(header)) by { if j < idx { assert(stored_ok_at(slots0, instruction_accounts@, signers@, j, wallet_of(header))); } } }
//@ subopt signers\.contains\(&idx_u16\) => slice_contains_u16(signers, idx_u16)
//@ subopt (?s)if !\(\(wallet\) == \(address\)\) => if !(wallet.hi == address.hi && wallet.lo == address.lo)
//@ cut_after .set_flag(InstructionAccountFlag::Writable, account.is_writable); } :: Ok(accounts) }
//@ loop 1: invariant _c <= instruction_accounts.len(), header == (BufferHeader { executor, wallet_bump }), forall|j: int| 0 <= j < _c ==> #[trigger] stored_ok_at(accounts.slots@, instruction_accounts@, signers@, j, wallet_of(header)), decreases instruction_accounts.len() - _c,
    #[verifier::loop_isolation(false)]
    fn load_and_init_instruction(&self, executor: Pubkey, wallet_bump: u8, rent_receiver: Pubkey, program_id: Pubkey, instruction_data: &[u8], instruction_accounts: &[AccInfo], signers: &[u16]) -> (r: Result<AccountsArea, E>)
        ensures
            // every account of the buffered instruction is stored with its own address and writable flag; it is marked as a signer
            // exactly when its index is listed in `signers`, and an account marked as a signer IS the executor wallet
            r.is_ok() ==> forall|j: int| 0 <= j < instruction_accounts.len() ==> #[trigger] stored_ok_at(r.unwrap().slots@, instruction_accounts@, signers@, j, wallet_of(BufferHeader { executor, wallet_bump })),
//@body
}
pub open spec fn stored_ok_at(slots: Seq<InstructionAccount>, accs: Seq<AccInfo>, signers: Seq<u16>, j: int, wallet: Pubkey) -> bool {
    0 <= j < slots.len() && j < accs.len() && stored_ok(slots[j], accs[j], signers, j, wallet)
}
pub open spec fn stored_ok(slot: InstructionAccount, acc: AccInfo, signers: Seq<u16>, j: int, wallet: Pubkey) -> bool {
    &&& slot.pubkey == acc.key && slot.flags.writable == acc.is_writable
    &&& j <= u16::MAX && slot.flags.signer == signers.contains(j as u16)
    &&& slot.flags.signer ==> acc.key == wallet
}
} // verus!
