//@include C23.rs
// =================================================================================================
// C23 (executors)  the keeper-side instruction handlers of deposits, withdrawals and shifts, whole bodies:
//      programs/store/src/instructions/exchange/execute_deposit.rs    :: unchecked_execute_deposit
//      programs/store/src/instructions/exchange/execute_withdrawal.rs :: unchecked_execute_withdrawal
//      programs/store/src/instructions/exchange/execute_shift.rs      :: unchecked_execute_shift
//      Handler technique: `ctx.accounts` is a carrier passed by `&mut`; every method of the accounts struct that moves tokens or
//      runs the market operation is ONE assumed call that appends a step to a ghost trace (or fails and appends nothing);
//      loaders are projections; the feature gate is an assumed fallible read; ActionHeader::{completed, cancelled} are the
//      units of verus/C23.rs. What the steps DO (token CPIs, the market operation) is not under contract here.
// =================================================================================================
verus! {
/// what an executor does, in order
pub enum Step {
    TokensIn, Perform { ok: bool }, TokensOutAfterSuccess { long: u64, short: u64 }, TokensBack, PayFee { amount: u64 },
}
pub struct StoreC { pub tag: u8 }
pub struct StoreLoader { pub s: StoreC }
impl StoreLoader { pub fn load(&self) -> (r: Result<&StoreC, E>) ensures r.is_ok() ==> *r.unwrap() == self.s { Ok(&self.s) } }
pub enum DomainDisabledFlag { Deposit, Withdrawal, Shift }
pub enum ActionDisabledFlag { Execute }
impl StoreC {
    /// ASSUMED: the feature gate (Store::validate_feature_enabled): a fallible read
    #[verifier::external_body]
    pub fn validate_feature_enabled(&self, d: DomainDisabledFlag, a: ActionDisabledFlag) -> (r: Result<(), E>) { unimplemented!() }
}
pub struct SignerSeeds { pub tag: u8 }
pub struct ActionData { pub header: ActionHeader }
impl ActionData {
    #[verifier::external_body]
    pub fn signer(&self) -> (r: SignerSeeds) { unimplemented!() }
}
pub struct ActionLoader2 { pub data: ActionData }
impl ActionLoader2 {
    pub fn load(&self) -> (r: Result<&ActionData, E>) ensures r.is_ok() ==> *r.unwrap() == self.data { Ok(&self.data) }
    pub fn load_mut(&mut self) -> (r: Result<&mut ActionData, E>)
        ensures r.is_ok(), *r.unwrap() == old(self).data, *final(self) == (ActionLoader2 { data: *final(r.unwrap()) })
    { Ok(&mut self.data) }
}
pub struct Remaining { pub tag: u8 }
pub struct EventEmitter { pub tag: u8 }
pub struct EventAuthority { pub tag: u8 }
impl EventAuthority { pub fn clone(&self) -> (r: EventAuthority) { EventAuthority { tag: self.tag } } }
impl EventEmitter { pub fn new(a: &EventAuthority, bump: u8) -> (r: EventEmitter) { EventEmitter { tag: 0 } } }
pub struct Bumps { pub event_authority: u8 }

/// the accounts of an executor: the store, the action (deposit / withdrawal / shift account) and the trace of what was done
pub struct ExecAccounts { pub store: StoreLoader, pub deposit: ActionLoader2, pub withdrawal: ActionLoader2, pub shift: ActionLoader2, pub event_authority: EventAuthority, pub trace: Ghost<Seq<Step>> }
pub struct ExecCtx { pub accounts: ExecAccounts, pub remaining_accounts: Remaining, pub bumps: Bumps }
pub open spec fn only_trace_changed(a: ExecAccounts, b: ExecAccounts) -> bool {
    a.store == b.store && a.deposit == b.deposit && a.withdrawal == b.withdrawal && a.shift == b.shift
}
impl ExecAccounts {
    #[verifier::external_body]
    pub fn transfer_tokens_in(&mut self, signer: &SignerSeeds, rem: &Remaining, ev: &EventEmitter) -> (r: Result<(), E>)
        ensures only_trace_changed(*final(self), *old(self)), r.is_ok() ==> final(self).trace@ == old(self).trace@.push(Step::TokensIn), r.is_err() ==> final(self).trace@ == old(self).trace@
    { unimplemented!() }
    #[verifier::external_body]
    pub fn transfer_market_tokens_in(&mut self, signer: &SignerSeeds) -> (r: Result<(), E>)
        ensures only_trace_changed(*final(self), *old(self)), r.is_ok() ==> final(self).trace@ == old(self).trace@.push(Step::TokensIn), r.is_err() ==> final(self).trace@ == old(self).trace@
    { unimplemented!() }
    #[verifier::external_body]
    pub fn transfer_from_market_tokens_in(&mut self, signer: &SignerSeeds) -> (r: Result<(), E>)
        ensures only_trace_changed(*final(self), *old(self)), r.is_ok() ==> final(self).trace@ == old(self).trace@.push(Step::TokensIn), r.is_err() ==> final(self).trace@ == old(self).trace@
    { unimplemented!() }
    /// deposit / shift: `executed` = the market operation went through; a soft failure is `false` (unless throw_on_execution_error)
    #[verifier::external_body]
    pub fn perform_execution(&mut self, rem: &Remaining, throw_on_execution_error: bool, ev: &EventEmitter) -> (r: Result<bool, E>)
        ensures only_trace_changed(*final(self), *old(self)), r.is_ok() ==> final(self).trace@ == old(self).trace@.push(Step::Perform { ok: r.unwrap() }), r.is_err() ==> final(self).trace@ == old(self).trace@
    { unimplemented!() }
    #[verifier::external_body]
    pub fn perform_shift_execution(&mut self, rem: &Remaining, throw_on_execution_error: bool, bump: u8) -> (r: Result<bool, E>)
        ensures only_trace_changed(*final(self), *old(self)), r.is_ok() ==> final(self).trace@ == old(self).trace@.push(Step::Perform { ok: r.unwrap() }), r.is_err() ==> final(self).trace@ == old(self).trace@
    { unimplemented!() }
    /// withdrawal: `Some((long, short))` = executed with these final output amounts
    #[verifier::external_body]
    pub fn perform_withdrawal_execution(&mut self, rem: &Remaining, throw_on_execution_error: bool, ev: &EventEmitter) -> (r: Result<Option<(u64, u64)>, E>)
        ensures only_trace_changed(*final(self), *old(self)), r.is_ok() ==> final(self).trace@ == old(self).trace@.push(Step::Perform { ok: r.unwrap().is_some() }), r.is_err() ==> final(self).trace@ == old(self).trace@
    { unimplemented!() }
    #[verifier::external_body]
    pub fn transfer_tokens_out(&mut self, rem: &Remaining, ev: &EventEmitter) -> (r: Result<(), E>)
        ensures only_trace_changed(*final(self), *old(self)), r.is_ok() ==> final(self).trace@ == old(self).trace@.push(Step::TokensBack), r.is_err() ==> final(self).trace@ == old(self).trace@
    { unimplemented!() }
    #[verifier::external_body]
    pub fn transfer_withdrawn_tokens_out(&mut self, rem: &Remaining, long: u64, short: u64, ev: &EventEmitter) -> (r: Result<(), E>)
        ensures only_trace_changed(*final(self), *old(self)), r.is_ok() ==> final(self).trace@ == old(self).trace@.push(Step::TokensOutAfterSuccess { long, short }), r.is_err() ==> final(self).trace@ == old(self).trace@
    { unimplemented!() }
    #[verifier::external_body]
    pub fn transfer_market_tokens_out(&mut self) -> (r: Result<(), E>)
        ensures only_trace_changed(*final(self), *old(self)), r.is_ok() ==> final(self).trace@ == old(self).trace@.push(Step::TokensBack), r.is_err() ==> final(self).trace@ == old(self).trace@
    { unimplemented!() }
    #[verifier::external_body]
    pub fn transfer_from_market_tokens_out(&mut self) -> (r: Result<(), E>)
        ensures only_trace_changed(*final(self), *old(self)), r.is_ok() ==> final(self).trace@ == old(self).trace@.push(Step::TokensBack), r.is_err() ==> final(self).trace@ == old(self).trace@
    { unimplemented!() }
    #[verifier::external_body]
    pub fn pay_execution_fee(&mut self, amount: u64) -> (r: Result<(), E>)
        ensures only_trace_changed(*final(self), *old(self)), r.is_ok() ==> final(self).trace@ == old(self).trace@.push(Step::PayFee { amount }), r.is_err() ==> final(self).trace@ == old(self).trace@
    { unimplemented!() }
}

/// THE STATEMENT for an executor of a pending action `h0`: tokens come in, the operation runs, and then EITHER it went through and
/// the action is COMPLETED, OR it failed softly and the action is CANCELLED and the escrowed tokens go back - never both, never
/// neither; the execution fee is settled last
pub open spec fn executed_once(t0: Seq<Step>, t1: Seq<Step>, h0: ActionHeader, h1: ActionHeader, fee: u64, out_after_success: Seq<Step>) -> bool {
    h0.action_state == 0 && h1.owner == h0.owner && h1.id == h0.id && (
        (h1.action_state == 1 && t1 =~= t0 + seq![Step::TokensIn, Step::Perform { ok: true }] + out_after_success + seq![Step::PayFee { amount: fee }])
        || (h1.action_state == 2 && t1 =~= t0 + seq![Step::TokensIn, Step::Perform { ok: false }, Step::TokensBack, Step::PayFee { amount: fee }]))
}

/// the payout step of a successful withdrawal, if the step at that place is one
pub open spec fn payout_part(t: Seq<Step>, k: int) -> Seq<Step> { if 0 <= k < t.len() && (t[k] is TokensOutAfterSuccess) { seq![t[k]] } else { Seq::<Step>::empty() } }

//@unit C23.unchecked_execute_deposit
//@ file programs/store/src/instructions/exchange/execute_deposit.rs
//@ fn unchecked_execute_deposit
//@ sig fn unchecked_execute_deposit<'info>( ctx: Context<'_, '_, 'info, 'info, ExecuteDeposit<'info>>, execution_fee: u64, throw_on_execution_error: bool, ) -> Result<()>
//@ sub let accounts = ctx\.accounts; => let accounts = &mut ctx.accounts;
//@ sub let remaining_accounts = ctx\.remaining_accounts; => let remaining_accounts = &ctx.remaining_accounts;
pub fn unchecked_execute_deposit(ctx: &mut ExecCtx, execution_fee: u64, throw_on_execution_error: bool) -> (r: Result<(), E>)
    ensures
        r.is_ok() ==> executed_once(old(ctx).accounts.trace@, final(ctx).accounts.trace@, old(ctx).accounts.deposit.data.header, final(ctx).accounts.deposit.data.header, execution_fee, Seq::<Step>::empty())
            && final(ctx).accounts.withdrawal == old(ctx).accounts.withdrawal && final(ctx).accounts.shift == old(ctx).accounts.shift,
//@body

//@unit C23.unchecked_execute_shift
//@ file programs/store/src/instructions/exchange/execute_shift.rs
//@ fn unchecked_execute_shift
//@ sig fn unchecked_execute_shift<'info>( ctx: Context<'_, '_, 'info, 'info, ExecuteShift<'info>>, execution_lamports: u64, throw_on_execution_error: bool, ) -> Result<()>
//@ sub let accounts = ctx\.accounts; => let accounts = &mut ctx.accounts;
//@ sub let remaining_accounts = ctx\.remaining_accounts; => let remaining_accounts = &ctx.remaining_accounts;
//@ sub accounts\.perform_execution\(\s*remaining_accounts,\s*throw_on_execution_error,\s*ctx\.bumps\.event_authority,\s*\)\? => accounts.perform_shift_execution(remaining_accounts, throw_on_execution_error, ctx.bumps.event_authority)?
pub fn unchecked_execute_shift(ctx: &mut ExecCtx, execution_lamports: u64, throw_on_execution_error: bool) -> (r: Result<(), E>)
    ensures
        r.is_ok() ==> executed_once(old(ctx).accounts.trace@, final(ctx).accounts.trace@, old(ctx).accounts.shift.data.header, final(ctx).accounts.shift.data.header, execution_lamports, Seq::<Step>::empty())
            && final(ctx).accounts.deposit == old(ctx).accounts.deposit && final(ctx).accounts.withdrawal == old(ctx).accounts.withdrawal,
//@body

//@unit C23.unchecked_execute_withdrawal
//@ file programs/store/src/instructions/exchange/execute_withdrawal.rs
//@ fn unchecked_execute_withdrawal
//@ sig fn unchecked_execute_withdrawal<'info>( ctx: Context<'_, '_, 'info, 'info, ExecuteWithdrawal<'info>>, execution_fee: u64, throw_on_execution_error: bool, ) -> Result<()>
//@ sub let accounts = ctx\.accounts; => let accounts = &mut ctx.accounts;
//@ sub let remaining_accounts = ctx\.remaining_accounts; => let remaining_accounts = &ctx.remaining_accounts;
//@ sub accounts\.perform_execution\( => accounts.perform_withdrawal_execution(
//@ subopt accounts\.transfer_tokens_out\(\s*remaining_accounts,\s*final_long_token_amount, => accounts.transfer_withdrawn_tokens_out(remaining_accounts, final_long_token_amount,
pub fn unchecked_execute_withdrawal(ctx: &mut ExecCtx, execution_fee: u64, throw_on_execution_error: bool) -> (r: Result<(), E>)
    ensures
        // a successful withdrawal additionally pays out the amounts the operation returned, AFTER it is marked completed (the third step
        // of the new trace, when it is a payout, is that payout)
        r.is_ok() ==> executed_once(old(ctx).accounts.trace@, final(ctx).accounts.trace@, old(ctx).accounts.withdrawal.data.header, final(ctx).accounts.withdrawal.data.header,
                execution_fee, payout_part(final(ctx).accounts.trace@, old(ctx).accounts.trace@.len() as int + 2)),
        r.is_ok() && final(ctx).accounts.withdrawal.data.header.action_state == 1 ==> final(ctx).accounts.trace@.len() == old(ctx).accounts.trace@.len() + 4
            && (final(ctx).accounts.trace@[old(ctx).accounts.trace@.len() as int + 2] is TokensOutAfterSuccess),
        r.is_ok() ==> final(ctx).accounts.deposit == old(ctx).accounts.deposit && final(ctx).accounts.shift == old(ctx).accounts.shift,
//@body
} // verus!
