//@include inc/model_base_u128.rs
// =================================================================================================
// C03 (which impact is charged)  SwapMarketExt::swap_impact_value: the impact of the real pool, replaced by the impact
//      of the virtual inventory only when that is WORSE (more negative), and only for a negative impact
//      crates/model/src/market/swap.rs :: SwapMarketExt::swap_impact_value
//      crates/model/src/pool/delta.rs  :: PoolDelta::{delta, long_token_price, short_token_price}, PoolValue::{long_value, short_value}
//      The impact formula itself (PoolDelta::price_impact) is under contract in verus/C03.rs; here it is a deterministic
//      function of the pool delta and the parameters (uninterpreted), as is the pool delta a virtual inventory builds.
// =================================================================================================
verus! {
//@struct crates/model/src/pool/delta.rs :: pub enum BalanceChange ::
#[derive(Clone, Copy)]
pub enum BalanceChange { Improved, Worsened, Unchanged }
//@struct crates/model/src/pool/delta.rs :: pub struct PriceImpact<T> :: value, balance_change
#[derive(Clone, Copy)]
pub struct PriceImpact { pub value: S, pub balance_change: BalanceChange }
/// opaque here
#[derive(Clone, Copy)]
pub struct PriceImpactParams { pub tag: u8 }

//@struct crates/model/src/pool/delta.rs :: pub struct PoolValue<T> :: long_token_usd_value, short_token_usd_value
/// `PoolValue<T::Signed>`: the usd deltas of the two sides
#[derive(Clone, Copy)]
pub struct SignedPoolValue { pub long_token_usd_value: S, pub short_token_usd_value: S }
impl SignedPoolValue {
//@unit C03.PoolValue.long_value
//@ file crates/model/src/pool/delta.rs
//@ within impl<T> PoolValue<T>
//@ fn long_value
//@ sig fn long_value(&self) -> &T
    pub fn long_value(&self) -> (r: &S) ensures *r == self.long_token_usd_value
//@body
//@unit C03.PoolValue.short_value
//@ file crates/model/src/pool/delta.rs
//@ within impl<T> PoolValue<T>
//@ fn short_value
//@ sig fn short_value(&self) -> &T
    pub fn short_value(&self) -> (r: &S) ensures *r == self.short_token_usd_value
//@body
}

/// a pool delta: what the accessors expose, plus an opaque rest (current / next pool values) the impact formula reads
pub struct PoolDelta { pub delta: SignedPoolValue, pub long_token_price: N, pub short_token_price: N, pub rest: Ghost<int> }
/// PoolDelta::price_impact (formula: verus/C03.rs) as a deterministic partial function
pub uninterp spec fn impact_of(d: PoolDelta, p: PriceImpactParams) -> Option<PriceImpact>;
impl PoolDelta {
//@unit C03.PoolDelta.delta
//@ file crates/model/src/pool/delta.rs
//@ within impl<T: Unsigned> PoolDelta<T>
//@ fn delta
//@ sig fn delta(&self) -> &PoolValue<T::Signed>
    pub fn delta(&self) -> (r: &SignedPoolValue) ensures *r == self.delta
//@body
//@unit C03.PoolDelta.long_token_price
//@ file crates/model/src/pool/delta.rs
//@ within impl<T: Unsigned> PoolDelta<T>
//@ fn long_token_price
//@ sig fn long_token_price(&self) -> &T
    pub fn long_token_price(&self) -> (r: &N) ensures *r == self.long_token_price
//@body
//@unit C03.PoolDelta.short_token_price
//@ file crates/model/src/pool/delta.rs
//@ within impl<T: Unsigned> PoolDelta<T>
//@ fn short_token_price
//@ sig fn short_token_price(&self) -> &T
    pub fn short_token_price(&self) -> (r: &N) ensures *r == self.short_token_price
//@body
    #[verifier::external_body]
    pub fn price_impact(&self, params: &PriceImpactParams) -> (r: Result<PriceImpact, E>)
        ensures r.is_ok() == impact_of(*self, *params).is_some(), r.is_ok() ==> r.unwrap() == impact_of(*self, *params).unwrap()
    { unimplemented!() }
}

/// the virtual inventory pool: the pool delta it builds for given usd deltas and prices (BalanceExt::pool_delta_with_values)
pub struct VPool { pub tag: Ghost<int> }
pub uninterp spec fn vdelta_of(v: VPool, long_value: S, short_value: S, long_price: N, short_price: N) -> Option<PoolDelta>;
impl VPool {
    #[verifier::external_body]
    pub fn pool_delta_with_values(&self, long_value: S, short_value: S, long_price: &N, short_price: &N) -> (r: Result<PoolDelta, E>)
        ensures r.is_ok() == vdelta_of(*self, long_value, short_value, *long_price, *short_price).is_some(),
            r.is_ok() ==> r.unwrap() == vdelta_of(*self, long_value, short_value, *long_price, *short_price).unwrap()
    { unimplemented!() }
}

/// Carrier for `Self: SwapMarket`: the impact parameters and the (optional) virtual inventory for swaps, each read fallible
pub struct SwM { pub params: Option<PriceImpactParams>, pub vi: Option<Option<VPool>> }
impl SwM {
    pub fn swap_impact_params(&self) -> (r: Result<PriceImpactParams, E>)
        ensures r.is_ok() == self.params.is_some(), r.is_ok() ==> r.unwrap() == self.params.unwrap()
    { match self.params { Some(p) => Ok(p), None => Err(E::Other) } }
    /// the repository returns `Result<Option<impl Deref<Target = Pool>>>`; here `Result<Option<&VPool>>`
    pub fn virtual_inventory_for_swaps_pool(&self) -> (r: Result<Option<&VPool>, E>)
        ensures r.is_ok() == self.vi.is_some(), r.is_ok() ==> (r.unwrap().is_some() == self.vi.unwrap().is_some())
            && (r.unwrap().is_some() ==> *r.unwrap().unwrap() == self.vi.unwrap().unwrap())
    { match &self.vi { Some(Some(v)) => Ok(Some(v)), Some(None) => Ok(None), None => Err(E::Other) } }

//@unit C03.SwapMarketExt.swap_impact_value
//@ file crates/model/src/market/swap.rs
//@ within pub trait SwapMarketExt<const DECIMALS: u8>: SwapMarket<DECIMALS>
//@ fn swap_impact_value
//@ sig fn swap_impact_value( &self, liquidity_pool_delta: &PoolDelta<Self::Num>, include_virtual_inventory_impact: bool, ) -> crate::Result<PriceImpact<Self::Signed>>
//@ subopt (\w+)\.value (<=|>=|<|>) (\w+)\.value => \1.value.0 \2 \3.value.0
    pub fn swap_impact_value(&self, liquidity_pool_delta: &PoolDelta, include_virtual_inventory_impact: bool) -> (r: Result<PriceImpact, E>)
        ensures
            r.is_ok() ==> self.params.is_some() && impact_of(*liquidity_pool_delta, self.params.unwrap()).is_some(),
            // a non-negative impact of the real pool, a caller that opts out, or a market without a virtual inventory: the real impact
            r.is_ok() && (impact_of(*liquidity_pool_delta, self.params.unwrap()).unwrap().value@ >= 0 || !include_virtual_inventory_impact
                    || (self.vi.is_some() && self.vi.unwrap().is_none()))
                ==> r.unwrap() == impact_of(*liquidity_pool_delta, self.params.unwrap()).unwrap(),
            // otherwise THE WORSE of the two: the virtual inventory's impact (same usd deltas, same prices, same parameters) replaces
            // the real one exactly when it is more negative
            r.is_ok() && impact_of(*liquidity_pool_delta, self.params.unwrap()).unwrap().value@ < 0 && include_virtual_inventory_impact
                    && self.vi.is_some() && self.vi.unwrap().is_some()
                ==> ({
                    let real_i = impact_of(*liquidity_pool_delta, self.params.unwrap()).unwrap();
                    let vd = vdelta_of(self.vi.unwrap().unwrap(), liquidity_pool_delta.delta.long_token_usd_value, liquidity_pool_delta.delta.short_token_usd_value,
                                       liquidity_pool_delta.long_token_price, liquidity_pool_delta.short_token_price);
                    vd.is_some() && impact_of(vd.unwrap(), self.params.unwrap()).is_some()
                        && r.unwrap() == (if impact_of(vd.unwrap(), self.params.unwrap()).unwrap().value@ < real_i.value@ { impact_of(vd.unwrap(), self.params.unwrap()).unwrap() } else { real_i })
                }),
            // in every case: never better than the real pool's impact
            r.is_ok() ==> r.unwrap().value@ <= impact_of(*liquidity_pool_delta, self.params.unwrap()).unwrap().value@,
//@body
}

// ---------------------------------------------------------------------------------------------
// positions: PositionExt::position_price_impact - the same rule over the open interest and the virtual inventory for positions
// ---------------------------------------------------------------------------------------------
/// the nested helper of position_price_impact: the size delta goes to the position's own side
pub struct ReassignedValuesP { pub delta_long_usd_value: S, pub delta_short_usd_value: S }
impl ReassignedValuesP {
//@unit C03.position_price_impact.ReassignedValues.new
//@ file crates/model/src/position.rs
//@ within pub trait PositionExt<const DECIMALS: u8>: Position<DECIMALS> >> impl<T: Zero + Clone> ReassignedValues<T>
//@ fn new
//@ sig fn new(is_long: bool, size_delta_usd: &T) -> Self
//@ sub Zero::zero\(\) => S::zero()
//@ sub Self \{ => ReassignedValuesP {
    fn new(is_long: bool, size_delta_usd: &S) -> (r: ReassignedValuesP)
        ensures is_long ==> r.delta_long_usd_value == *size_delta_usd && r.delta_short_usd_value@ == 0,
                !is_long ==> r.delta_short_usd_value == *size_delta_usd && r.delta_long_usd_value@ == 0,
//@body
}
/// `Delta<&Signed>` as used here: both sides given
pub struct DeltaP { pub long: S, pub short: S }
impl DeltaP {
    /// glue for `Delta::new_both_sides(is_long_first, first, second)` (under contract in C04 / C05)
    pub fn new_both_sides(is_long_first: bool, first: &S, second: &S) -> (r: DeltaP)
        ensures is_long_first ==> r.long == *first && r.short == *second, !is_long_first ==> r.long == *second && r.short == *first
    { if is_long_first { DeltaP { long: *first, short: *second } } else { DeltaP { long: *second, short: *first } } }
}
/// the virtual inventory for positions as a pool: netting its two sides (Pool::checked_cancel_amounts) and shifting both sides
/// (Pool::checked_apply_delta) are deterministic partial functions
pub uninterp spec fn cancel_of(v: VPool) -> Option<VPool>;
pub uninterp spec fn apply_of(v: VPool, dl: S, ds: S) -> Option<VPool>;
impl VPool {
    #[verifier::external_body]
    pub fn checked_cancel_amounts(&self) -> (r: Result<VPool, E>)
        ensures r.is_ok() == cancel_of(*self).is_some(), r.is_ok() ==> r.unwrap() == cancel_of(*self).unwrap()
    { unimplemented!() }
    #[verifier::external_body]
    pub fn checked_apply_delta(&self, delta: DeltaP) -> (r: Result<VPool, E>)
        ensures r.is_ok() == apply_of(*self, delta.long, delta.short).is_some(), r.is_ok() ==> r.unwrap() == apply_of(*self, delta.long, delta.short).unwrap()
    { unimplemented!() }
}
/// the market as a position reads it: impact parameters, the open interest (a two-sided balance) and the optional virtual inventory
pub struct PMkt { pub params: Option<PriceImpactParams>, pub oi: Option<VPool>, pub vi: Option<Option<VPool>> }
impl PMkt {
    pub fn position_impact_params(&self) -> (r: Result<PriceImpactParams, E>)
        ensures r.is_ok() == self.params.is_some(), r.is_ok() ==> r.unwrap() == self.params.unwrap()
    { match self.params { Some(p) => Ok(p), None => Err(E::Other) } }
    /// the repository returns `Result<impl Balance>` (the merged open interest); here a reference to the carrier
    pub fn open_interest(&self) -> (r: Result<&VPool, E>)
        ensures r.is_ok() == self.oi.is_some(), r.is_ok() ==> *r.unwrap() == self.oi.unwrap()
    { match &self.oi { Some(v) => Ok(v), None => Err(E::Other) } }
    pub fn virtual_inventory_for_positions_pool(&self) -> (r: Result<Option<&VPool>, E>)
        ensures r.is_ok() == self.vi.is_some(), r.is_ok() ==> (r.unwrap().is_some() == self.vi.unwrap().is_some())
            && (r.unwrap().is_some() ==> *r.unwrap().unwrap() == self.vi.unwrap().unwrap())
    { match &self.vi { Some(Some(v)) => Ok(Some(v)), Some(None) => Ok(None), None => Err(E::Other) } }
}
pub struct PosP { pub long: bool, pub mkt: PMkt }
/// usd deltas of the two sides for a size delta of this position
pub open spec fn dl_of(p: PosP, size: S) -> S { if p.long { size } else { S(0) } }
pub open spec fn ds_of(p: PosP, size: S) -> S { if p.long { S(0) } else { size } }
/// the impact of the real open interest
pub open spec fn real_impact(p: PosP, size: S) -> Option<PriceImpact> {
    match vdelta_of(p.mkt.oi.unwrap(), dl_of(p, size), ds_of(p, size), N(1), N(1)) { Some(d) => impact_of(d, p.mkt.params.unwrap()), None => None }
}
/// the virtual inventory the virtual impact is computed on: netted, and shifted up by |size| on both sides for a decrease
pub open spec fn adjusted_vi(p: PosP, size: S) -> Option<VPool> {
    match cancel_of(p.mkt.vi.unwrap().unwrap()) {
        Some(l) => if size@ < 0 { apply_of(l, S((-size@) as IW), S((-size@) as IW)) } else { Some(l) },
        None => None,
    }
}
impl PosP {
    pub fn is_long(&self) -> (r: bool) ensures r == self.long { self.long }
    pub fn market(&self) -> (r: &PMkt) ensures *r == self.mkt { &self.mkt }

//@unit C03.PositionExt.position_price_impact
//@ file crates/model/src/position.rs
//@ within pub trait PositionExt<const DECIMALS: u8>: Position<DECIMALS>
//@ fn position_price_impact
//@ sig fn position_price_impact( &self, size_delta_usd: &Self::Signed, include_virtual_inventory_impact: bool, ) -> crate::Result<PriceImpact<Self::Signed>>
//@ sub struct ReassignedValues<T> \{[\s\S]*?\n        \}\n\n        impl<T: Zero \+ Clone> ReassignedValues<T> \{[\s\S]*?\n        \}\n =>
//@ sub let usd_price = One::one\(\); => let usd_price: N = N::one();
//@ sub let ReassignedValues \{ => let ReassignedValuesP {
//@ sub = ReassignedValues::new\( => = ReassignedValuesP::new(
//@ sub Delta::new_both_sides\( => DeltaP::new_both_sides(
//@ subopt (\w+)\.value (<=|>=|<|>) (\w+)\.value => \1.value.0 \2 \3.value.0
    pub fn position_price_impact(&self, size_delta_usd: &S, include_virtual_inventory_impact: bool) -> (r: Result<PriceImpact, E>)
        ensures
            r.is_ok() ==> self.mkt.params.is_some() && self.mkt.oi.is_some() && real_impact(*self, *size_delta_usd).is_some(),
            // non-negative real impact, opt-out, or no virtual inventory: the impact of the real open interest
            r.is_ok() && (real_impact(*self, *size_delta_usd).unwrap().value@ >= 0 || !include_virtual_inventory_impact || (self.mkt.vi.is_some() && self.mkt.vi.unwrap().is_none()))
                ==> r.unwrap() == real_impact(*self, *size_delta_usd).unwrap(),
            // otherwise THE WORSE of the two: the virtual inventory (netted; both sides shifted by |size| for a decrease) with the same usd deltas,
            // unit prices and parameters replaces the real impact exactly when it is more negative
            r.is_ok() && real_impact(*self, *size_delta_usd).unwrap().value@ < 0 && include_virtual_inventory_impact && self.mkt.vi.is_some() && self.mkt.vi.unwrap().is_some()
                ==> ({
                    let real_i = real_impact(*self, *size_delta_usd).unwrap();
                    let av = adjusted_vi(*self, *size_delta_usd);
                    av.is_some() && ({
                        let vd = vdelta_of(av.unwrap(), dl_of(*self, *size_delta_usd), ds_of(*self, *size_delta_usd), N(1), N(1));
                        vd.is_some() && impact_of(vd.unwrap(), self.mkt.params.unwrap()).is_some()
                            && r.unwrap() == (if impact_of(vd.unwrap(), self.mkt.params.unwrap()).unwrap().value@ < real_i.value@ { impact_of(vd.unwrap(), self.mkt.params.unwrap()).unwrap() } else { real_i })
                    })
                }),
            // in every case: never better than the real open interest's impact
            r.is_ok() ==> r.unwrap().value@ <= real_impact(*self, *size_delta_usd).unwrap().value@,
//@body
}
} // verus!
