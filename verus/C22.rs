//@prelude u128
// =================================================================================================
// C22  Market vaults stay solvent: what the balance validation guarantees, and how recorded balances move
//      programs/store/src/states/market/utils.rs              :: ValidateMarketBalances::{validate_market_balance_for_the_given_token,
//                                                                 validate_market_balances}
//      programs/store/src/states/market/revertible/market.rs  :: RevertibleMarket::{balance_for_token, record_transferred_in,
//                                                                 record_transferred_out} and its Bank impl
//      crates/model/src/bank.rs                               :: Bank::balance_excluding
//      crates/model/src/market/base.rs                        :: BaseMarketExt::{expected_min_token_balance_excluding_collateral_amount_for_one_token_side,
//                                                                 total_collateral_amount_for_one_token_side}
//      crates/utils/src/market.rs                             :: MarketMeta::to_token_side
// =================================================================================================
verus! {
#[derive(Clone, Copy, Eq)]
pub struct Pubkey { pub hi: u128, pub lo: u128 }
impl PartialEqSpecImpl for Pubkey {
    open spec fn obeys_eq_spec() -> bool { true }
    open spec fn eq_spec(&self, other: &Pubkey) -> bool { *self == *other }
}
impl PartialEq for Pubkey {
    fn eq(&self, other: &Pubkey) -> (r: bool) { self.hi == other.hi && self.lo == other.lo }
}
impl N {
    /// glue: `u128::from(u64)`
    pub fn from_u64_value(v: u64) -> (r: N) ensures r@ == v { N(v as u128) }
}

//@struct crates/utils/src/market.rs :: pub struct MarketMeta :: market_token_mint, index_token_mint, long_token_mint, short_token_mint
#[derive(Clone, Copy)]
pub struct MarketMeta { pub market_token_mint: Pubkey, pub index_token_mint: Pubkey, pub long_token_mint: Pubkey, pub short_token_mint: Pubkey }
/// which side a collateral token is: the long token first (a pure market has long == short: it is the long side)
pub open spec fn side_of(m: MarketMeta, token: Pubkey) -> Option<bool> {
    if token == m.long_token_mint { Some(true) } else if token == m.short_token_mint { Some(false) } else { None }
}
impl MarketMeta {
//@unit C22.MarketMeta.to_token_side
//@ file crates/utils/src/market.rs
//@ within impl MarketMeta
//@ fn to_token_side
//@ sig fn to_token_side(&self, token: &Pubkey) -> MarketResult<bool>
//@ sub MarketError::NotACollateralToken => E::Other
    pub fn to_token_side(&self, token: &Pubkey) -> (r: Result<bool, E>)
        ensures r.is_ok() == side_of(*self, *token).is_some(), r.is_ok() ==> r.unwrap() == side_of(*self, *token).unwrap()
//@body
}

/// a two-sided pool (`Balance::amount(is_long)`)
#[derive(Clone, Copy)]
pub struct Sides { pub long: N, pub short: N }
pub open spec fn side(p: Sides, is_long: bool) -> int { if is_long { p.long@ } else { p.short@ } }
impl Sides {
    pub fn amount(&self, is_long: bool) -> (r: Result<N, E>)
        ensures r.is_ok() && r.unwrap()@ == side(*self, is_long)
    { if is_long { Ok(self.long) } else { Ok(self.short) } }
}

//@struct programs/store/src/states/market/mod.rs :: pub struct OtherState :: padding, rev, trade_count, long_token_balance, short_token_balance, funding_factor_per_second, reserved
pub struct OtherState { pub long_token_balance: u64, pub short_token_balance: u64 }
pub struct MarketCore { pub meta: MarketMeta, pub pure: bool }
impl MarketCore {
    pub fn is_pure(&self) -> (r: bool) ensures r == self.pure { self.pure }
}
/// Carrier for `RevertibleMarket` (and for `Self` of the two extension traits): market meta + purity flag, the recorded
/// balances (`other()` / `other_mut()`), and the pools the validation reads (each read fallible).
pub struct RM {
    pub market: MarketCore, pub other_state: OtherState,
    pub liquidity: Option<Sides>, pub swap_impact: Option<Sides>, pub claimable_fee: Option<Sides>,
    pub collateral_sum_long: Option<Sides>, pub collateral_sum_short: Option<Sides>,
}
/// pure-market invariant of the meta
pub open spec fn rm_wf(m: RM) -> bool { m.market.pure == (m.market.meta.long_token_mint == m.market.meta.short_token_mint) }
/// recorded balance of a token side: a pure market keeps everything on the long side
pub open spec fn recorded(m: RM, is_long_token: bool) -> int { if is_long_token || m.market.pure { m.other_state.long_token_balance as int } else { m.other_state.short_token_balance as int } }
/// liquidity + swap impact + claimable fees held for one token side
pub open spec fn min_balance_one_side(m: RM, is_long: bool) -> int {
    side(m.liquidity.unwrap(), is_long) + side(m.swap_impact.unwrap(), is_long) + side(m.claimable_fee.unwrap(), is_long)
}
/// total position collateral held in one token (long and short positions)
pub open spec fn collateral_one_side(m: RM, is_long: bool) -> int { side(m.collateral_sum_long.unwrap(), is_long) + side(m.collateral_sum_short.unwrap(), is_long) }
/// what the recorded balance of a token must cover (both halves for a pure market)
pub open spec fn required_min(m: RM, is_long: bool) -> int { if m.market.pure { min_balance_one_side(m, true) + min_balance_one_side(m, false) } else { min_balance_one_side(m, is_long) } }
pub open spec fn required_collateral(m: RM, is_long: bool) -> int { if m.market.pure { collateral_one_side(m, true) + collateral_one_side(m, false) } else { collateral_one_side(m, is_long) } }
pub open spec fn pools_readable(m: RM) -> bool { m.liquidity.is_some() && m.swap_impact.is_some() && m.claimable_fee.is_some() && m.collateral_sum_long.is_some() && m.collateral_sum_short.is_some() }

impl RM {
    pub fn is_pure(&self) -> (r: bool) ensures r == self.market.pure { self.market.pure }
    pub fn market_meta(&self) -> (r: &MarketMeta) ensures *r == self.market.meta { &self.market.meta }
    fn other(&self) -> (r: &OtherState) ensures *r == self.other_state { &self.other_state }
    fn other_mut(&mut self) -> (r: &mut OtherState)
        ensures *r == old(self).other_state, *final(self) == (RM { other_state: *final(r), ..*old(self) })
    { &mut self.other_state }
    fn opt(p: &Option<Sides>) -> (r: Result<&Sides, E>) ensures r.is_ok() == p.is_some(), r.is_ok() ==> *r.unwrap() == p.unwrap()
    { match p { Some(x) => Ok(x), None => Err(E::Other) } }
    pub fn liquidity_pool(&self) -> (r: Result<&Sides, E>) ensures r.is_ok() == self.liquidity.is_some(), r.is_ok() ==> *r.unwrap() == self.liquidity.unwrap() { Self::opt(&self.liquidity) }
    pub fn swap_impact_pool(&self) -> (r: Result<&Sides, E>) ensures r.is_ok() == self.swap_impact.is_some(), r.is_ok() ==> *r.unwrap() == self.swap_impact.unwrap() { Self::opt(&self.swap_impact) }
    pub fn claimable_fee_pool(&self) -> (r: Result<&Sides, E>) ensures r.is_ok() == self.claimable_fee.is_some(), r.is_ok() ==> *r.unwrap() == self.claimable_fee.unwrap() { Self::opt(&self.claimable_fee) }
    pub fn collateral_sum_pool(&self, is_long: bool) -> (r: Result<&Sides, E>)
        ensures r.is_ok() == (if is_long { self.collateral_sum_long } else { self.collateral_sum_short }).is_some(),
                r.is_ok() ==> *r.unwrap() == (if is_long { self.collateral_sum_long } else { self.collateral_sum_short }).unwrap()
    { if is_long { Self::opt(&self.collateral_sum_long) } else { Self::opt(&self.collateral_sum_short) } }

//@unit C22.RevertibleMarket.balance_for_token
//@ file programs/store/src/states/market/revertible/market.rs
//@ within impl<'a, 'info> RevertibleMarket<'a, 'info>
//@ fn balance_for_token
//@ sig fn balance_for_token(&self, is_long_token: bool) -> u64
    fn balance_for_token(&self, is_long_token: bool) -> (r: u64)
        ensures r == recorded(*self, is_long_token)
//@body

//@unit C22.RevertibleMarket.record_transferred_in
//@ file programs/store/src/states/market/revertible/market.rs
//@ within impl<'a, 'info> RevertibleMarket<'a, 'info>
//@ fn record_transferred_in
//@ sig fn record_transferred_in(&mut self, is_long_token: bool, amount: u64) -> Result<()>
    fn record_transferred_in(&mut self, is_long_token: bool, amount: u64) -> (r: Result<(), E>)
        ensures
            // the recorded balance of that token grows by exactly the amount, the other balance and the pools are untouched;
            // an overflow fails without change
            r.is_ok() == (recorded(*old(self), is_long_token) + amount <= u64::MAX),
            r.is_ok() ==> recorded(*final(self), is_long_token) == recorded(*old(self), is_long_token) + amount,
            r.is_ok() && !old(self).market.pure ==> recorded(*final(self), !is_long_token) == recorded(*old(self), !is_long_token),
            r.is_err() ==> *final(self) == *old(self),
            *final(self) == (RM { other_state: final(self).other_state, ..*old(self) }),
//@body

//@unit C22.RevertibleMarket.record_transferred_out
//@ file programs/store/src/states/market/revertible/market.rs
//@ within impl<'a, 'info> RevertibleMarket<'a, 'info>
//@ fn record_transferred_out
//@ sig fn record_transferred_out(&mut self, is_long_token: bool, amount: u64) -> Result<()>
    fn record_transferred_out(&mut self, is_long_token: bool, amount: u64) -> (r: Result<(), E>)
        ensures
            // never more than the recorded balance can leave; it shrinks by exactly the amount
            r.is_ok() == (amount <= recorded(*old(self), is_long_token)),
            r.is_ok() ==> recorded(*final(self), is_long_token) == recorded(*old(self), is_long_token) - amount,
            r.is_ok() && !old(self).market.pure ==> recorded(*final(self), !is_long_token) == recorded(*old(self), !is_long_token),
            r.is_err() ==> *final(self) == *old(self),
            *final(self) == (RM { other_state: final(self).other_state, ..*old(self) }),
//@body

//@unit C22.Bank.record_transferred_in_by_token
//@ file programs/store/src/states/market/revertible/market.rs
//@ within impl gmsol_model::Bank<Pubkey> for RevertibleMarket<'_, '_>
//@ fn record_transferred_in_by_token
//@ sig fn record_transferred_in_by_token<Q: ?Sized + Borrow<Pubkey>>( &mut self, token: &Q, amount: &Self::Num, ) -> gmsol_model::Result<()>
//@ sub token\.borrow\(\) => token
    pub fn record_transferred_in_by_token(&mut self, token: &Pubkey, amount: &u64) -> (r: Result<(), E>)
        ensures
            r.is_ok() ==> side_of(old(self).market.meta, *token).is_some()
                && recorded(*final(self), side_of(old(self).market.meta, *token).unwrap()) == recorded(*old(self), side_of(old(self).market.meta, *token).unwrap()) + *amount,
            r.is_err() ==> *final(self) == *old(self),
//@body

//@unit C22.Bank.record_transferred_out_by_token
//@ file programs/store/src/states/market/revertible/market.rs
//@ within impl gmsol_model::Bank<Pubkey> for RevertibleMarket<'_, '_>
//@ fn record_transferred_out_by_token
//@ sig fn record_transferred_out_by_token<Q: ?Sized + Borrow<Pubkey>>( &mut self, token: &Q, amount: &Self::Num, ) -> gmsol_model::Result<()>
//@ sub token\.borrow\(\) => token
    pub fn record_transferred_out_by_token(&mut self, token: &Pubkey, amount: &u64) -> (r: Result<(), E>)
        ensures
            r.is_ok() ==> side_of(old(self).market.meta, *token).is_some() && *amount <= recorded(*old(self), side_of(old(self).market.meta, *token).unwrap())
                && recorded(*final(self), side_of(old(self).market.meta, *token).unwrap()) == recorded(*old(self), side_of(old(self).market.meta, *token).unwrap()) - *amount,
            r.is_err() ==> *final(self) == *old(self),
//@body

//@unit C22.Bank.balance
//@ file programs/store/src/states/market/revertible/market.rs
//@ within impl gmsol_model::Bank<Pubkey> for RevertibleMarket<'_, '_>
//@ fn balance
//@ sig fn balance<Q: Borrow<Pubkey> + ?Sized>(&self, token: &Q) -> gmsol_model::Result<Self::Num>
//@ sub token\.borrow\(\) => token
    pub fn balance(&self, token: &Pubkey) -> (r: Result<u64, E>)
        ensures r.is_ok() == side_of(self.market.meta, *token).is_some(), r.is_ok() ==> r.unwrap() == recorded(*self, side_of(self.market.meta, *token).unwrap())
//@body

//@unit C22.Bank.balance_excluding
//@ file crates/model/src/bank.rs
//@ within pub trait Bank<K>
//@ fn balance_excluding
//@ sig fn balance_excluding<Q: Borrow<K> + ?Sized>( &self, token: &Q, excluded: &Self::Num, ) -> crate::Result<Self::Num>
//@ subopt excluded\.is_zero\(\) => (*excluded == 0)
//@ subopt \.checked_sub\(excluded\) => .checked_sub(*excluded)
    pub fn balance_excluding(&self, token: &Pubkey, excluded: &u64) -> (r: Result<u64, E>)
        ensures
            r.is_ok() ==> side_of(self.market.meta, *token).is_some() && *excluded <= recorded(*self, side_of(self.market.meta, *token).unwrap())
                && r.unwrap() == recorded(*self, side_of(self.market.meta, *token).unwrap()) - *excluded,
            side_of(self.market.meta, *token).is_some() && *excluded <= recorded(*self, side_of(self.market.meta, *token).unwrap()) ==> r.is_ok(),
//@body

//@unit C22.BaseMarketExt.expected_min_token_balance_excluding_collateral_amount_for_one_token_side
//@ file crates/model/src/market/base.rs
//@ within pub trait BaseMarketExt<const DECIMALS: u8>: BaseMarket<DECIMALS>
//@ fn expected_min_token_balance_excluding_collateral_amount_for_one_token_side
//@ sig fn expected_min_token_balance_excluding_collateral_amount_for_one_token_side( &self, is_long_side: bool, ) -> crate::Result<Self::Num>
    pub fn expected_min_token_balance_excluding_collateral_amount_for_one_token_side(&self, is_long_side: bool) -> (r: Result<N, E>)
        ensures
            r.is_ok() ==> self.liquidity.is_some() && self.swap_impact.is_some() && self.claimable_fee.is_some() && r.unwrap()@ == min_balance_one_side(*self, is_long_side),
//@body

//@unit C22.BaseMarketExt.total_collateral_amount_for_one_token_side
//@ file crates/model/src/market/base.rs
//@ within pub trait BaseMarketExt<const DECIMALS: u8>: BaseMarket<DECIMALS>
//@ fn total_collateral_amount_for_one_token_side
//@ sig fn total_collateral_amount_for_one_token_side( &self, is_long_side: bool, ) -> crate::Result<Self::Num>
    pub fn total_collateral_amount_for_one_token_side(&self, is_long_side: bool) -> (r: Result<N, E>)
        ensures
            r.is_ok() ==> self.collateral_sum_long.is_some() && self.collateral_sum_short.is_some() && r.unwrap()@ == collateral_one_side(*self, is_long_side),
//@body

//@unit C22.validate_market_balance_for_the_given_token
//@ file programs/store/src/states/market/utils.rs
//@ within pub trait ValidateMarketBalances
//@ fn validate_market_balance_for_the_given_token
//@ sig fn validate_market_balance_for_the_given_token( &self, token: &Pubkey, excluded: u64, ) -> gmsol_model::Result<()>
//@ sub (\.expected_min_token_balance_excluding_collateral_amount_for_one_token_side\(\s*!?is_long_token,?\s*\)\?) => \1.0
//@ sub (\.total_collateral_amount_for_one_token_side\(!?is_long_token\)\?) => \1.0
    pub fn validate_market_balance_for_the_given_token(&self, token: &Pubkey, excluded: u64) -> (r: Result<(), E>)
        ensures
            // success means: the recorded balance of the token, minus the excluded amount, covers liquidity + swap impact +
            // claimable fees, and separately covers the total position collateral (both halves for a pure market)
            r.is_ok() ==> side_of(self.market.meta, *token).is_some() && pools_readable(*self) && ({
                let is_long = side_of(self.market.meta, *token).unwrap();
                &&& excluded <= recorded(*self, is_long)
                &&& recorded(*self, is_long) - excluded >= required_min(*self, is_long)
                &&& recorded(*self, is_long) - excluded >= required_collateral(*self, is_long)
            }),
//@body

//@unit C22.validate_market_balances
//@ file programs/store/src/states/market/utils.rs
//@ within pub trait ValidateMarketBalances
//@ fn validate_market_balances
//@ sig fn validate_market_balances( &self, mut long_excluding_amount: u64, mut short_excluding_amount: u64, ) -> Result<()>
//@ sub \.map_err\(ModelError::from\)\? => ?
    pub fn validate_market_balances(&self, mut long_excluding_amount: u64, mut short_excluding_amount: u64) -> (r: Result<(), E>)
        requires rm_wf(*self)
        ensures
            // success means both pool tokens are covered after setting the excluded amounts aside (a pure market: their sum, once)
            r.is_ok() ==> pools_readable(*self),
            r.is_ok() && !self.market.pure ==>
                recorded(*self, true) - long_excluding_amount >= required_min(*self, true) && recorded(*self, true) - long_excluding_amount >= required_collateral(*self, true)
                && recorded(*self, false) - short_excluding_amount >= required_min(*self, false) && recorded(*self, false) - short_excluding_amount >= required_collateral(*self, false),
            r.is_ok() && self.market.pure ==>
                recorded(*self, true) - (long_excluding_amount + short_excluding_amount) >= required_min(*self, true)
                && recorded(*self, true) - (long_excluding_amount + short_excluding_amount) >= required_collateral(*self, true),
//@body

//@unit C22.validate_market_balances_excluding_the_given_token_amounts
//@ file programs/store/src/states/market/utils.rs
//@ within pub trait ValidateMarketBalances
//@ fn validate_market_balances_excluding_the_given_token_amounts
//@ sig fn validate_market_balances_excluding_the_given_token_amounts( &self, first_token: &Pubkey, second_token: &Pubkey, first_excluding_amount: u64, second_excluding_amount: u64, ) -> Result<()>
//@ subopt \.map_err\(E::Other\)\? => ?
//@ subopt \.map_err\(CoreError::from\)\? => ?
//@ loop 1: invariant _k21 <= 2, rm_wf(*self), _arr21[0] == (first_token, first_excluding_amount), _arr21[1] == (second_token, second_excluding_amount), long_excluding_amount as int == excluded_on(*self, true, *first_token, first_excluding_amount, *second_token, second_excluding_amount, _k21 as int), short_excluding_amount as int == excluded_on(*self, false, *first_token, first_excluding_amount, *second_token, second_excluding_amount, _k21 as int), (_k21 >= 1 ==> first_excluding_amount == 0 || side_of(self.market.meta, *first_token).is_some()), (_k21 >= 2 ==> second_excluding_amount == 0 || side_of(self.market.meta, *second_token).is_some()), decreases 2 - _k21,
    pub fn validate_market_balances_excluding_the_given_token_amounts(&self, first_token: &Pubkey, second_token: &Pubkey, first_excluding_amount: u64, second_excluding_amount: u64) -> (r: Result<(), E>)
        requires rm_wf(*self)
        ensures
            // success means the balances are covered after setting BOTH given amounts aside, each on the side of its token
            // (two amounts in the same token add up)
            r.is_ok() ==> pools_readable(*self),
            r.is_ok() && !self.market.pure ==> ({
                let el = excluded_on(*self, true, *first_token, first_excluding_amount, *second_token, second_excluding_amount, 2);
                let es = excluded_on(*self, false, *first_token, first_excluding_amount, *second_token, second_excluding_amount, 2);
                &&& recorded(*self, true) - el >= required_min(*self, true) && recorded(*self, true) - el >= required_collateral(*self, true)
                &&& recorded(*self, false) - es >= required_min(*self, false) && recorded(*self, false) - es >= required_collateral(*self, false)
            }),
            r.is_ok() && self.market.pure ==> ({
                let e = excluded_on(*self, true, *first_token, first_excluding_amount, *second_token, second_excluding_amount, 2)
                      + excluded_on(*self, false, *first_token, first_excluding_amount, *second_token, second_excluding_amount, 2);
                recorded(*self, true) - e >= required_min(*self, true) && recorded(*self, true) - e >= required_collateral(*self, true)
            }),
            // a non-zero amount in a token that is not a pool token is an error
            (first_excluding_amount != 0 && side_of(self.market.meta, *first_token).is_none()) || (second_excluding_amount != 0 && side_of(self.market.meta, *second_token).is_none()) ==> r.is_err(),
//@body
}

/// amount excluded on one side after the first `k` of the two (token, amount) pairs
pub open spec fn excluded_on(m: RM, long_side: bool, t1: Pubkey, a1: u64, t2: Pubkey, a2: u64, k: int) -> int {
    (if k >= 1 && a1 != 0 && side_of(m.market.meta, t1) == Some(long_side) { a1 as int } else { 0 })
    + (if k >= 2 && a2 != 0 && side_of(m.market.meta, t2) == Some(long_side) { a2 as int } else { 0 })
}

/// Several markets share one vault: if every market's recorded balance of the vault's token is backed (the sum of the
/// recorded balances is at most the vault balance) and a transfer of `amount` out of the vault is recorded by
/// record_transferred_out on one market, the sum stays within the new vault balance -- one market's step of the induction.
pub proof fn lemma_shared_vault_step_out(recorded_sum: int, this_market: int, vault: int, amount: int)
    requires 0 <= this_market <= recorded_sum <= vault, 0 <= amount <= this_market
    ensures recorded_sum - amount <= vault - amount
{
}
pub proof fn lemma_shared_vault_step_in(recorded_sum: int, vault: int, amount: int)
    requires recorded_sum <= vault, amount >= 0
    ensures recorded_sum + amount <= vault + amount
{
}
} // verus!
