//@prelude u128
//@include inc/pow10.rs
// =================================================================================================
// C43  SDK amount and Decimal conversions round-trip
//      crates/sdk/src/utils/fixed.rs :: unsigned_fixed_to_decimal (+ its inner convert_by_change_the_scale), signed_fixed_to_decimal,
//            unsigned_amount_to_decimal, signed_amount_to_decimal, unsigned_value_to_decimal, signed_value_to_decimal,
//            rescale_to_mantissa, decimal_to_amount, decimal_to_signed_value, decimal_to_value
//      rust_decimal::Decimal is an ASSUMED dependency contract (a 96-bit mantissa with a scale of at most 28), written from its
//      documentation and cross-checked natively (replay command `sdkfixed.*` runs the real text against the real crate).
// =================================================================================================
verus! {
//@const crates/sdk/src/utils/fixed.rs :: MAX_REPR :: u128 = 0x0000_0000_FFFF_FFFF_FFFF_FFFF_FFFF_FFFF
//@const crates/sdk/src/utils/fixed.rs :: TARGET_SCALE :: u32 = MAX_REPR.ilog10() - 1
pub const MAX_REPR: u128 = 0x0000_0000_FFFF_FFFF_FFFF_FFFF_FFFF_FFFF;
/// MAX_REPR = 2^96 - 1 = 79228162514264337593543950335 has 29 digits: ilog10 = 28 (checked numerically by contracts/C43.py)
pub const TARGET_SCALE: u32 = 27;
pub const MARKET_DECIMALS: u8 = 20;

// ASSUMED std contract (vstd has none): ilog10 of a positive number
pub assume_specification [u128::ilog10] (x: u128) -> (r: u32)
    requires x > 0
    ensures r <= 38, p10(r as nat) <= x, x < p10((r + 1) as nat) || r == 38;
pub assume_specification [i128::is_negative] (x: i128) -> (r: bool) ensures r == (x < 0);
pub assume_specification [i64::is_negative] (x: i64) -> (r: bool) ensures r == (x < 0);
pub assume_specification [i128::unsigned_abs] (x: i128) -> (r: u128) ensures r as int == (if x < 0 { -(x as int) } else { x as int });
pub assume_specification [i64::unsigned_abs] (x: i64) -> (r: u64) ensures r as int == (if x < 0 { -(x as int) } else { x as int });
pub assume_specification [u64::pow] (b: u64, e: u32) -> (r: u64)
    requires ipow(b as int, e as nat) <= u64::MAX
    ensures r == ipow(b as int, e as nat);

/// rust_decimal::Decimal: mantissa m with |m| <= 2^96 - 1 and scale s <= 28; it denotes m / 10^s
#[verifier::external_body] #[derive(Clone, Copy)] pub struct Decimal { _p: [u32; 4] }
impl Decimal {
    pub uninterp spec fn mant(&self) -> int;
    pub uninterp spec fn sc(&self) -> nat;
    /// type invariant of rust_decimal (assumed)
    #[verifier::external_body] pub proof fn lemma_wf(&self) ensures -(MAX_REPR as int) <= self.mant() <= MAX_REPR as int, self.sc() <= 28 { }
    #[verifier::external_body] pub fn zero() -> (r: Decimal) ensures r.mant() == 0 { unimplemented!() }
    /// panics if the scale exceeds 28 or the number does not fit 96 bits
    #[verifier::external_body] pub fn from_i128_with_scale(num: i128, scale: u32) -> (r: Decimal)
        requires scale <= 28, -(MAX_REPR as int) <= num <= MAX_REPR as int
        ensures r.mant() == num, r.sc() == scale
    { unimplemented!() }
    #[verifier::external_body] pub fn try_from_i128_with_scale(num: i128, scale: u32) -> (r: Result<Decimal, ()>)
        ensures r.is_ok() == (scale <= 28 && -(MAX_REPR as int) <= num <= MAX_REPR as int), r.is_ok() ==> r.unwrap().mant() == num && r.unwrap().sc() == scale
    { unimplemented!() }
    /// `-d`
    #[verifier::external_body] pub fn neg_(self) -> (r: Decimal) ensures r.mant() == -self.mant(), r.sc() == self.sc() { unimplemented!() }
    /// `rescale(s)`: ASSUMED only that rescaling to the scale the number already has changes nothing (what it does otherwise -
    /// rounding half away from zero when the scale shrinks, stopping short when the mantissa would overflow - is exercised natively)
    #[verifier::external_body] pub fn rescale(&mut self, s: u32)
        ensures s == old(self).sc() ==> final(self).mant() == old(self).mant() && final(self).sc() == old(self).sc()
    { unimplemented!() }
    #[verifier::external_body] pub fn scale(&self) -> (r: u32) ensures r == self.sc() { unimplemented!() }
    #[verifier::external_body] pub fn mantissa(&self) -> (r: i128) ensures r == self.mant() { unimplemented!() }
}
/// the exact value relation: d denotes num / 10^decimals
pub open spec fn denotes(d: Decimal, num: int, decimals: nat) -> bool {
    d.sc() <= decimals && d.mant() * p10((decimals - d.sc()) as nat) == num || d.sc() > decimals && d.mant() == num * p10((d.sc() - decimals) as nat)
}

//@unit C43.convert_by_change_the_scale
//@ file crates/sdk/src/utils/fixed.rs
//@ within pub fn unsigned_fixed_to_decimal(num: u128, decimals: u8) -> Option<Decimal>
//@ fn convert_by_change_the_scale
//@ sig fn convert_by_change_the_scale(mut num: u128, scale: u32) -> Option<Decimal>
//@ sub assert\(digits >= TARGET_SCALE\); => assert(digits >= 28 && digits >= TARGET_SCALE) by { lemma_p10_more(); if digits < 28 { lemma_p10_mono((digits + 1) as nat, 28); } }
//@ before num /= 10u128.pow(scale_diff); :: proof { lemma_p10_values(); lemma_p10_fits(scale_diff as nat); lemma_p10_pos(scale_diff as nat); lemma_trunc_fits(num as int, digits as nat); }
fn convert_by_change_the_scale(mut num: u128, scale: u32) -> (r: Option<Decimal>)
    requires num > MAX_REPR
    ensures
        // (never panics) a number too large for 96 bits is accepted by DROPPING its k >= 1 low digits: the result is floor(num / 10^k) at
        // scale - k, which does not denote num / 10^scale unless those digits were zero (the known finding); it is refused only if the
        // scale is smaller than k (k <= 11 for a u128)
        r.is_some() ==> r.unwrap().sc() < scale && r.unwrap().mant() == num as int / p10((scale - r.unwrap().sc()) as nat),
        11 <= scale <= 28 ==> r.is_some(),
        // (after the repair) a scale that stays above 28 once the digits are dropped is refused, not a panic
        r.is_some() ==> r.unwrap().sc() <= 28,
//@body

pub proof fn lemma_p10_more()
    ensures p10(11) == 100000000000, p10(19) == 10000000000000000000, p10(28) == 10000000000000000000000000000, p10(28) <= MAX_REPR, p10(29) > MAX_REPR
{
    assert(p10(11) == 100000000000) by(compute);
    assert(p10(19) == 10000000000000000000) by(compute);
    assert(p10(28) == 10000000000000000000000000000) by(compute);
    assert(p10(29) == 100000000000000000000000000000) by(compute);
}
/// floor(num / 10^(digits - 27)) fits 96 bits when num has digits + 1 decimal digits
pub proof fn lemma_trunc_fits(num: int, digits: nat)
    requires num >= 0, digits >= 27, digits <= 38, num < p10(digits + 1) || digits == 38, num <= u128::MAX
    ensures num / p10((digits - 27) as nat) <= MAX_REPR, num / p10((digits - 27) as nat) >= 0
{
    lemma_p10_more();
    let k = (digits - 27) as nat;
    lemma_p10_pos(k);
    lemma_div_pos_is_pos(num, p10(k));
    if digits < 38 {
        lemma_p10_add(k, 28);
        assert(k + 28 == digits + 1);
        // num < 10^k * 10^28  ==>  num / 10^k < 10^28 <= MAX_REPR
        lemma_div_by_multiple_is_strongly_ordered(num, p10(k) * p10(28), p10(28), p10(k)) ;
        lemma_mul_is_commutative(p10(k), p10(28));
        lemma_div_multiples_vanish(p10(28), p10(k));
    } else {
        // digits == 38, k = 11: num <= u128::MAX, so num / 10^11 <= u128::MAX / 10^11 < 2^96
        lemma_div_is_ordered(num, u128::MAX as int, 100000000000);
        assert(340282366920938463463374607431768211455int / 100000000000 == 3402823669209384634633746074) by(compute);
    }
}

//@unit C43.unsigned_fixed_to_decimal
//@ file crates/sdk/src/utils/fixed.rs
//@ fn unsigned_fixed_to_decimal
//@ sig fn unsigned_fixed_to_decimal(num: u128, decimals: u8) -> Option<Decimal>
//@ sub (?s)fn convert_by_change_the_scale\(mut num: u128, scale: u32\) -> Option<Decimal> \{.*?\n    \}\n =>
pub fn unsigned_fixed_to_decimal(num: u128, decimals: u8) -> (r: Option<Decimal>)
    ensures
        // (never panics) a number that fits 96 bits converts EXACTLY whenever the decimals are supported (<= 28) - and only then
        num <= MAX_REPR ==> (r.is_some() <==> decimals <= 28),
        num <= MAX_REPR && r.is_some() ==> r.unwrap().mant() == num && r.unwrap().sc() == decimals,
        // a supported, representable number is never refused
        num <= MAX_REPR && decimals <= 28 ==> r.is_some(),
        // a larger number is accepted (with its low digits dropped) whenever 11 <= decimals
        num > MAX_REPR && 11 <= decimals <= 28 ==> r.is_some(),
//@body

//@unit C43.signed_fixed_to_decimal
//@ file crates/sdk/src/utils/fixed.rs
//@ fn signed_fixed_to_decimal
//@ sig fn signed_fixed_to_decimal(num: i128, decimals: u8) -> Option<Decimal>
//@ sub Some\(-d\) => Some(d.neg_())
pub fn signed_fixed_to_decimal(num: i128, decimals: u8) -> (r: Option<Decimal>)
    ensures
        -(MAX_REPR as int) <= num <= MAX_REPR as int ==> (r.is_some() <==> decimals <= 28),
        -(MAX_REPR as int) <= num <= MAX_REPR as int && r.is_some() ==> r.unwrap().mant() == num && r.unwrap().sc() == decimals,
        11 <= decimals <= 28 ==> r.is_some(),
//@body

//@unit C43.unsigned_amount_to_decimal
//@ file crates/sdk/src/utils/fixed.rs
//@ fn unsigned_amount_to_decimal
//@ sig fn unsigned_amount_to_decimal(mut num: u64, mut decimals: u8) -> Decimal
//@ sub Decimal::ZERO => Decimal::zero()
//@ sub \.expect\("must be `Some`"\) => .unwrap()
//@ before num /= 10u64.pow(scale_diff as u32); :: proof { lemma_p10_values(); lemma_p10_mono(scale_diff as nat, 19); lemma_p10_pos(scale_diff as nat); }
pub fn unsigned_amount_to_decimal(mut num: u64, mut decimals: u8) -> (r: Decimal)
    ensures
        // (never panics: the `expect` is reached only with `Some`) with supported decimals the amount converts exactly
        decimals <= 28 ==> r.mant() == num && r.sc() == decimals,
//@body

//@unit C43.signed_amount_to_decimal
//@ file crates/sdk/src/utils/fixed.rs
//@ fn signed_amount_to_decimal
//@ sig fn signed_amount_to_decimal(num: i64, decimals: u8) -> Decimal
//@ sub (?s)if is_negative \{\s*-d\s*\} else \{ => if is_negative { d.neg_() } else {
pub fn signed_amount_to_decimal(num: i64, decimals: u8) -> (r: Decimal)
    ensures decimals <= 28 ==> r.mant() == num && r.sc() == decimals,
//@body

//@unit C43.unsigned_value_to_decimal
//@ file crates/sdk/src/utils/fixed.rs
//@ fn unsigned_value_to_decimal
//@ sig fn unsigned_value_to_decimal(num: u128) -> Decimal
//@ sub \.expect\("must be `Some`"\) => .unwrap()
pub fn unsigned_value_to_decimal(num: u128) -> (r: Decimal)
    ensures
        // (never panics, for EVERY u128) a value that fits 96 bits converts exactly at 20 decimals
        num <= MAX_REPR ==> r.mant() == num && r.sc() == 20,
//@body

//@unit C43.signed_value_to_decimal
//@ file crates/sdk/src/utils/fixed.rs
//@ fn signed_value_to_decimal
//@ sig fn signed_value_to_decimal(num: i128) -> Decimal
//@ sub \.expect\("must be `Some`"\) => .unwrap()
pub fn signed_value_to_decimal(num: i128) -> (r: Decimal)
    ensures -(MAX_REPR as int) <= num <= MAX_REPR as int ==> r.mant() == num && r.sc() == 20,
//@body

//@unit C43.rescale_to_mantissa
//@ file crates/sdk/src/utils/fixed.rs
//@ fn rescale_to_mantissa
//@ sig fn rescale_to_mantissa(mut value: rust_decimal::Decimal, decimals: u8) -> crate::Result<i128>
//@ sub use std::cmp::Ordering; =>
//@ sub let decimals = u32::from\(decimals\); => let decimals = decimals as u32;
//@ sub (?s)match scale\.cmp\(&decimals\) \{.*\n    \} => if scale < decimals { match checked_pow10_i128(decimals - scale) { Some(m) => match mantissa.checked_mul(m) { Some(v) => Ok(v), None => Err(E::Other) }, None => Err(E::Other) } } else if scale == decimals { Ok(mantissa) } else { Err(E::Other) }
fn rescale_to_mantissa(mut value: Decimal, decimals: u8) -> (r: Result<i128, E>)
    ensures
        // a Decimal that already has `decimals` fractional digits gives back its mantissa unchanged (the round trip)
        value.sc() == decimals ==> r.is_ok() && r.unwrap() == value.mant(),
//@body

/// `10i128.checked_pow(e)` (glue: exact power of ten or None on overflow)
#[verifier::external_body]
pub fn checked_pow10_i128(e: u32) -> (r: Option<i128>) ensures r.is_some() ==> r.unwrap() == p10(e as nat), r.is_none() ==> p10(e as nat) > i128::MAX { unimplemented!() }

//@unit C43.decimal_to_signed_value
//@ file crates/sdk/src/utils/fixed.rs
//@ fn decimal_to_signed_value
//@ sig fn decimal_to_signed_value(amount: rust_decimal::Decimal, decimals: u8) -> crate::Result<i128>
pub fn decimal_to_signed_value(amount: Decimal, decimals: u8) -> (r: Result<i128, E>)
    ensures amount.sc() == decimals ==> r.is_ok() && r.unwrap() == amount.mant(),
//@body

//@unit C43.decimal_to_value
//@ file crates/sdk/src/utils/fixed.rs
//@ fn decimal_to_value
//@ sig fn decimal_to_value(amount: rust_decimal::Decimal, decimals: u8) -> crate::Result<u128>
//@ sub (?s)\.try_into\(\)\s*\.map_err\(E::custom\) => .try_into().map_err(|_e| -> (o: E) { E::Other })
pub fn decimal_to_value(amount: Decimal, decimals: u8) -> (r: Result<u128, E>)
    ensures
        amount.sc() == decimals && amount.mant() >= 0 ==> r.is_ok() && r.unwrap() == amount.mant(),
        // a negative value is an error, never a wrapped number
        amount.sc() == decimals && amount.mant() < 0 ==> r.is_err(),
//@body

//@unit C43.decimal_to_amount
//@ file crates/sdk/src/utils/fixed.rs
//@ fn decimal_to_amount
//@ sig fn decimal_to_amount(amount: rust_decimal::Decimal, decimals: u8) -> crate::Result<u64>
//@ sub (?s)\.try_into\(\)\s*\.map_err\(E::custom\) => .try_into().map_err(|_e| -> (o: E) { E::Other })
pub fn decimal_to_amount(amount: Decimal, decimals: u8) -> (r: Result<u64, E>)
    ensures
        amount.sc() == decimals && 0 <= amount.mant() <= u64::MAX ==> r.is_ok() && r.unwrap() == amount.mant(),
        amount.sc() == decimals && !(0 <= amount.mant() <= u64::MAX) ==> r.is_err(),
//@body

/// ROUND TRIP (the statement): an on-chain value that fits 96 bits, converted with supported decimals and back, is the original integer
pub proof fn lemma_round_trip(num: u128, decimals: u8, d: Decimal)
    requires num <= MAX_REPR, decimals <= 28, d.mant() == num, d.sc() == decimals
    ensures d.sc() == decimals && d.mant() == num   // = the precondition of the three decimal_to_* contracts, whose result is then `num`
{ }
} // verus!
