//@include inc/model_base_u128.rs
// =================================================================================================
// C12  Funding rates stay within bounds; funding amounts per size are exact and never negative
//      crates/model/src/action/update_funding_state.rs :: UpdateFundingState::next_funding_factor_per_second,
//                                                          pack_to_funding_amount_per_size, unpack_to_funding_amount_delta
//      crates/model/src/params/fee.rs                  :: FundingFeeParams::{change, accessors}
// =================================================================================================
verus! {
//@struct crates/model/src/params/fee.rs :: pub struct FundingFeeParams<T> :: exponent, funding_factor, increase_factor_per_second, decrease_factor_per_second, max_factor_per_second, min_factor_per_second, threshold_for_stable_funding, threshold_for_decrease_funding
#[derive(Clone, Copy)]
pub struct FundingFeeParams {
    pub exponent: N, pub funding_factor: N, pub increase_factor_per_second: N, pub decrease_factor_per_second: N,
    pub max_factor_per_second: N, pub min_factor_per_second: N, pub threshold_for_stable_funding: N, pub threshold_for_decrease_funding: N,
}
//@struct crates/model/src/params/fee.rs :: pub enum FundingRateChangeType ::
pub enum FundingRateChangeType { NoChange, Increase, Decrease }

/// skew and stored rate point the same way
pub open spec fn same_direction(f: int, long_oi: int, short_oi: int) -> bool { (f > 0 && long_oi > short_oi) || (f < 0 && long_oi < short_oi) }

impl FundingFeeParams {
//@unit C12.FundingFeeParams.exponent
//@ file crates/model/src/params/fee.rs
//@ within impl<T> FundingFeeParams<T>
//@ fn exponent
//@ sig fn exponent(&self) -> &T
    pub fn exponent(&self) -> (r: &N) ensures *r == self.exponent
//@body
//@unit C12.FundingFeeParams.increase_factor_per_second
//@ file crates/model/src/params/fee.rs
//@ within impl<T> FundingFeeParams<T>
//@ fn increase_factor_per_second
//@ sig fn increase_factor_per_second(&self) -> &T
    pub fn increase_factor_per_second(&self) -> (r: &N) ensures *r == self.increase_factor_per_second
//@body
//@unit C12.FundingFeeParams.decrease_factor_per_second
//@ file crates/model/src/params/fee.rs
//@ within impl<T> FundingFeeParams<T>
//@ fn decrease_factor_per_second
//@ sig fn decrease_factor_per_second(&self) -> &T
    pub fn decrease_factor_per_second(&self) -> (r: &N) ensures *r == self.decrease_factor_per_second
//@body
//@unit C12.FundingFeeParams.max_factor_per_second
//@ file crates/model/src/params/fee.rs
//@ within impl<T> FundingFeeParams<T>
//@ fn max_factor_per_second
//@ sig fn max_factor_per_second(&self) -> &T
    pub fn max_factor_per_second(&self) -> (r: &N) ensures *r == self.max_factor_per_second
//@body
//@unit C12.FundingFeeParams.min_factor_per_second
//@ file crates/model/src/params/fee.rs
//@ within impl<T> FundingFeeParams<T>
//@ fn min_factor_per_second
//@ sig fn min_factor_per_second(&self) -> &T
    pub fn min_factor_per_second(&self) -> (r: &N) ensures *r == self.min_factor_per_second
//@body
//@unit C12.FundingFeeParams.factor
//@ file crates/model/src/params/fee.rs
//@ within impl<T> FundingFeeParams<T>
//@ fn factor
//@ sig fn factor(&self) -> &T
    pub fn factor(&self) -> (r: &N) ensures *r == self.funding_factor
//@body

//@unit C12.FundingFeeParams.change
//@ file crates/model/src/params/fee.rs
//@ within impl<T> FundingFeeParams<T>
//@ fn change
//@ sig fn change( &self, funding_factor_per_second: &T::Signed, long_open_interest: &T, short_open_interest: &T, diff_factor: &T, ) -> FundingRateChangeType
//@ sub use num_traits::Signed; =>
    pub fn change(&self, funding_factor_per_second: &S, long_open_interest: &N, short_open_interest: &N, diff_factor: &N) -> (r: FundingRateChangeType)
        ensures
            // against the skew (or no stored rate): increase; with the skew: by the two thresholds
            !same_direction(funding_factor_per_second@, long_open_interest@, short_open_interest@) ==> r is Increase,
            same_direction(funding_factor_per_second@, long_open_interest@, short_open_interest@) ==>
                (diff_factor@ > self.threshold_for_stable_funding@ ==> r is Increase)
                && (diff_factor@ <= self.threshold_for_stable_funding@ && diff_factor@ < self.threshold_for_decrease_funding@ ==> r is Decrease)
                && (diff_factor@ <= self.threshold_for_stable_funding@ && diff_factor@ >= self.threshold_for_decrease_funding@ ==> r is NoChange),
//@body
}

impl N {
    /// glue: `<u128 as num_traits::FromPrimitive>::from_u64` (num-traits 0.2: always `Some(n as u128)`)
    pub fn from_u64(n: u64) -> (r: Option<N>) ensures r == Some(N(n as u128)) { Some(N(n as u128)) }
}

/// Carrier for `M: PerpMarket`: the two things the method reads (`funding_fee_params()` fallible, `funding_factor_per_second()`)
pub struct FundingMarket { pub params: Option<FundingFeeParams>, pub factor_per_second: S }
impl FundingMarket {
    pub fn funding_fee_params(&self) -> (r: Result<FundingFeeParams, E>)
        ensures r.is_ok() == self.params.is_some(), r.is_ok() ==> r.unwrap() == self.params.unwrap()
    { match self.params { Some(p) => Ok(p), None => Err(E::Other) } }
    pub fn funding_factor_per_second(&self) -> (r: &S) ensures *r == self.factor_per_second { &self.factor_per_second }
}
pub struct UpdateFundingState { pub market: FundingMarket }

pub open spec fn adaptive(p: FundingFeeParams) -> bool { p.increase_factor_per_second@ != 0 }
/// the non-adaptive rate before the cap: funding factor x (|long - short|^exponent / (long + short))
pub open spec fn non_adaptive_raw(long_oi: int, short_oi: int, p: FundingFeeParams) -> int {
    mul_div_floor(mul_div_floor(aef(abs(long_oi - short_oi), p.exponent@), uunit(), long_oi + short_oi), p.funding_factor@, uunit())
}
pub open spec fn capped(raw: int, max: int) -> int { if raw > max { max } else { raw } }

impl UpdateFundingState {
//@unit C12.next_funding_factor_per_second
//@ file crates/model/src/action/update_funding_state.rs
//@ within impl<M: PerpMarketMut<DECIMALS>, const DECIMALS: u8> UpdateFundingState<M, DECIMALS>
//@ fn next_funding_factor_per_second
//@ sig fn next_funding_factor_per_second( &self, duration_in_seconds: u64, long_open_interest: &M::Num, short_open_interest: &M::Num, ) -> crate::Result<(M::Num, bool, M::Signed)>
//@ sub use crate::\{num::UnsignedAbs, utils\}; =>
//@ sub use num_traits::\{CheckedAdd, CheckedMul, CheckedSub, FromPrimitive, Signed\}; =>
//@ sub utils::(apply_exponent_factor|div_to_factor|apply_factor)\( => \1(
//@ sub M::Num::from_u64 => N::from_u64
//@ sub Unsigned::bound_magnitude => N::bound_magnitude
//@ sub \.and_then\(\|v\| v\.checked_mul\(&duration_value\)\) => .and_then(|v: N| -> (o: Option<N>) ensures o.is_some() == (v@ * duration_value@ <= umax()), o.is_some() ==> o.unwrap()@ == v@ * duration_value@ { v.checked_mul(&duration_value) })
    pub fn next_funding_factor_per_second(&self, duration_in_seconds: u64, long_open_interest: &N, short_open_interest: &N) -> (r: Result<(N, bool, S), E>)
        ensures
            r.is_ok() ==> self.market.params.is_some(),
            // adaptive funding: the rate used for the next period has a magnitude within [min, max]; the stored next rate within [0, max]
            r.is_ok() && adaptive(self.market.params.unwrap()) ==>
                self.market.params.unwrap().min_factor_per_second@ <= r.unwrap().0@ <= self.market.params.unwrap().max_factor_per_second@
                && abs(r.unwrap().2@) <= self.market.params.unwrap().max_factor_per_second@,
            // without adaptive funding: never above the maximum, nothing stored, and the larger side pays
            r.is_ok() && !adaptive(self.market.params.unwrap()) ==>
                r.unwrap().0@ <= self.market.params.unwrap().max_factor_per_second@ && r.unwrap().2@ == 0
                && (long_open_interest@ != short_open_interest@ ==> r.unwrap().1 == (long_open_interest@ > short_open_interest@)),
            // ... exactly: the raw rate capped at the maximum (whole-unit exponents)
            r.is_ok() && !adaptive(self.market.params.unwrap()) && self.market.params.unwrap().exponent@ % uunit() == 0 && long_open_interest@ != short_open_interest@ ==>
                r.unwrap().0@ == capped(non_adaptive_raw(long_open_interest@, short_open_interest@, self.market.params.unwrap()), self.market.params.unwrap().max_factor_per_second@),
            // there is no rate without open interest
            r.is_ok() && (adaptive(self.market.params.unwrap()) || long_open_interest@ != short_open_interest@) ==> long_open_interest@ + short_open_interest@ > 0,
//@body
}

/// KNOWN FINDING (known_findings.txt): the statement's LOWER bound, read literally, for the non-adaptive mode. The code applies
/// only the maximum there, so this obligation fails; see finding_witness for a concrete input (also reproduced natively).
pub proof fn finding_non_adaptive_rate_below_minimum(long_oi: int, short_oi: int, p: FundingFeeParams)
    requires long_oi > 0, short_oi > 0, long_oi != short_oi, !adaptive(p), p.min_factor_per_second@ <= p.max_factor_per_second@
    ensures p.min_factor_per_second@ <= capped(non_adaptive_raw(long_oi, short_oi, p), p.max_factor_per_second@)
{
}
/// witness: open interest 1 000 001 vs 1 000 000 units, exponent 1, funding factor 2*10^12, max 10^12, min 3*10^10  =>  999 999
pub proof fn finding_witness()
    ensures ({
        let p = FundingFeeParams { exponent: N(100000000000000000000), funding_factor: N(2000000000000), increase_factor_per_second: N(0), decrease_factor_per_second: N(0),
                                   max_factor_per_second: N(1000000000000), min_factor_per_second: N(30000000000), threshold_for_stable_funding: N(0), threshold_for_decrease_funding: N(0) };
        capped(non_adaptive_raw(1000001 * 100000000000000000000int, 1000000 * 100000000000000000000int, p), p.max_factor_per_second@) == 999999 && 999999 < p.min_factor_per_second@
    })
{
    let u = 100000000000000000000int;
    assert(uunit() == u);
    assert(abs(1000001 * u - 1000000 * u) == u);
    assert(aef(u, u) == u);
    assert((u * u) / (1000001 * u + 1000000 * u) == 49999975000012) by (compute);
    assert((49999975000012int * 2000000000000int) / u == 999999) by (compute);
}

// ---- funding amounts per size --------------------------------------------------------------------------------
//@unit C12.pack_to_funding_amount_per_size
//@ file crates/model/src/action/update_funding_state.rs
//@ fn pack_to_funding_amount_per_size
//@ sig fn pack_to_funding_amount_per_size<T, const DECIMALS: u8>( adjustment: &T, funding_value: &T, open_interest: &T, price: &T, round_up_magnitude: bool, ) -> Option<T>
//@ sub assert\(!price\.is_zero\(\)\); => assert(price@ != 0);
pub fn pack_to_funding_amount_per_size(adjustment: &N, funding_value: &N, open_interest: &N, price: &N, round_up_magnitude: bool) -> (r: Option<N>)
    requires
        // the repository's own debug assertion (kept as a proved assertion, R7): prices are validated non-zero at the call sites
        price@ != 0,
    ensures
        // nothing to pay or nobody to pay it: zero
        (funding_value@ == 0 || open_interest@ == 0) ==> r == Some(N(0)),
        // otherwise value * adjustment * UNIT / open interest / price, both divisions rounded the requested way
        (r.is_some() && funding_value@ != 0 && open_interest@ != 0) ==> price@ != 0 && r.unwrap()@ == (if round_up_magnitude {
                div_ceil(mul_div_ceil(funding_value@, adjustment@ * uunit(), open_interest@), price@)
            } else {
                mul_div_floor(funding_value@, adjustment@ * uunit(), open_interest@) / price@
            }),
//@body

//@unit C12.unpack_to_funding_amount_delta
//@ file crates/model/src/action/update_funding_state.rs
//@ fn unpack_to_funding_amount_delta
//@ sig fn unpack_to_funding_amount_delta<T, const DECIMALS: u8>( adjustment: &T, latest_funding_amount_per_size: &T, position_funding_amount_per_size: &T, size_in_usd: &T, round_up_magnitude: bool, ) -> Option<T>
pub fn unpack_to_funding_amount_delta(adjustment: &N, latest_funding_amount_per_size: &N, position_funding_amount_per_size: &N, size_in_usd: &N, round_up_magnitude: bool) -> (r: Option<N>)
    ensures
        // a position's pending funding amount is size * (latest index - the position's index) / (adjustment * UNIT):
        // computed only when the index did not go backwards, and then it is not negative
        r.is_some() ==> latest_funding_amount_per_size@ >= position_funding_amount_per_size@ && adjustment@ != 0 && r.unwrap()@ >= 0
            && r.unwrap()@ == (if round_up_magnitude { mul_div_ceil(size_in_usd@, latest_funding_amount_per_size@ - position_funding_amount_per_size@, adjustment@ * uunit()) }
                               else { mul_div_floor(size_in_usd@, latest_funding_amount_per_size@ - position_funding_amount_per_size@, adjustment@ * uunit()) }),
//@body

/// what a payer is charged (rounded up) is at least what the receivers can claim (rounded down): one funding value, one
/// price, the same open interest on both sides of the comparison
pub proof fn lemma_pack_payer_ge_receiver(adjustment: int, funding_value: int, open_interest: int, price: int)
    requires adjustment >= 0, funding_value >= 0, open_interest > 0, price > 0
    ensures div_ceil(mul_div_ceil(funding_value, adjustment * uunit(), open_interest), price)
            >= mul_div_floor(funding_value, adjustment * uunit(), open_interest) / price
{
    let n = adjustment * uunit();
    lemma_mul_nonnegative(adjustment, uunit());
    lemma_mul_nonnegative(funding_value, n);
    let x = funding_value * n;
    let a = (x + open_interest - 1) / open_interest;
    let b = x / open_interest;
    lemma_div_is_ordered(x, x + open_interest - 1, open_interest);
    lemma_div_pos_is_pos(x, open_interest);
    lemma_div_is_ordered(b, a + price - 1, price);
}

// ---------------------------------------------------------------------------------------------
// the action: UpdateFundingState::execute - the eight indices only grow
// ---------------------------------------------------------------------------------------------
//@unit C12.flags_to_index
//@ file crates/model/src/action/update_funding_state.rs
//@ fn flags_to_index
//@ sig fn flags_to_index(is_long: bool, is_long_collateral: bool) -> usize
fn flags_to_index(is_long: bool, is_long_collateral: bool) -> (r: usize)
    ensures r < 4, r == slot(is_long, is_long_collateral),
//@body
pub open spec fn slot(is_long: bool, is_long_collateral: bool) -> int { (if is_long_collateral { 0int } else { 2int }) + (if is_long { 0int } else { 1int }) }

//@struct crates/model/src/action/update_funding_state.rs :: pub struct UpdateFundingReport<Unsigned, Signed> :: duration_in_seconds, next_funding_factor_per_second, delta_funding_amount_per_size, delta_claimable_funding_amount_per_size
/// the deltas are UNSIGNED in the repository's type: an index cannot be asked to move down
pub struct UpdateFundingReport { pub duration_in_seconds: u64, pub next_funding_factor_per_second: S, pub delta_funding_amount_per_size: [N; 4], pub delta_claimable_funding_amount_per_size: [N; 4] }
impl UpdateFundingReport {
//@unit C12.UpdateFundingReport.next_funding_factor_per_second
//@ file crates/model/src/action/update_funding_state.rs
//@ within impl<T: Unsigned> UpdateFundingReport<T, T::Signed>
//@ fn next_funding_factor_per_second
//@ sig fn next_funding_factor_per_second(&self) -> &T::Signed
    pub fn next_funding_factor_per_second(&self) -> (r: &S) ensures *r == self.next_funding_factor_per_second
//@body
//@unit C12.UpdateFundingReport.delta_funding_amount_per_size
//@ file crates/model/src/action/update_funding_state.rs
//@ within impl<T: Unsigned> UpdateFundingReport<T, T::Signed>
//@ fn delta_funding_amount_per_size
//@ sig fn delta_funding_amount_per_size(&self, is_long: bool, is_long_collateral: bool) -> &T
    pub fn delta_funding_amount_per_size(&self, is_long: bool, is_long_collateral: bool) -> (r: &N)
        ensures *r == self.delta_funding_amount_per_size[slot(is_long, is_long_collateral)]
//@body
//@unit C12.UpdateFundingReport.delta_claimable_funding_amount_per_size
//@ file crates/model/src/action/update_funding_state.rs
//@ within impl<T: Unsigned> UpdateFundingReport<T, T::Signed>
//@ fn delta_claimable_funding_amount_per_size
//@ sig fn delta_claimable_funding_amount_per_size( &self, is_long: bool, is_long_collateral: bool, ) -> &T
    pub fn delta_claimable_funding_amount_per_size(&self, is_long: bool, is_long_collateral: bool) -> (r: &N)
        ensures *r == self.delta_claimable_funding_amount_per_size[slot(is_long, is_long_collateral)]
//@body
}

/// a per-size index pool: one slot per collateral token
#[derive(Clone, Copy)]
pub struct IdxPool { pub long: N, pub short: N }
pub open spec fn ip(p: IdxPool, is_long_collateral: bool) -> int { if is_long_collateral { p.long@ } else { p.short@ } }
impl IdxPool {
    /// ASSUMED trait contracts of `Pool::apply_delta_to_long_amount / _short_amount` (required methods; store-side pool: C15)
    #[verifier::external_body]
    pub fn apply_delta_to_long_amount(&mut self, delta: &S) -> (r: Result<(), E>)
        ensures r.is_ok() ==> final(self).long@ == old(self).long@ + delta@ && final(self).short == old(self).short, r.is_err() ==> *final(self) == *old(self)
    { unimplemented!() }
    #[verifier::external_body]
    pub fn apply_delta_to_short_amount(&mut self, delta: &S) -> (r: Result<(), E>)
        ensures r.is_ok() ==> final(self).short@ == old(self).short@ + delta@ && final(self).long == old(self).long, r.is_err() ==> *final(self) == *old(self)
    { unimplemented!() }
//@unit C12.PoolExt.apply_delta_amount
//@ file crates/model/src/pool/mod.rs
//@ within pub trait PoolExt: Pool
//@ fn apply_delta_amount
//@ sig fn apply_delta_amount(&mut self, is_long: bool, delta: &Self::Signed) -> crate::Result<()>
    pub fn apply_delta_amount(&mut self, is_long: bool, delta: &S) -> (r: Result<(), E>)
        ensures r.is_ok() ==> ip(*final(self), is_long) == ip(*old(self), is_long) + delta@ && ip(*final(self), !is_long) == ip(*old(self), !is_long),
                r.is_err() ==> *final(self) == *old(self)
//@body
}

/// Carrier for `M: PerpMarketMut` as the action writes it: the four index pools (funding / claimable x long / short side), the
/// stored funding factor and the funding clock (ghost log of the durations it handed out)
pub struct XMarket { pub fa_long: IdxPool, pub fa_short: IdxPool, pub cl_long: IdxPool, pub cl_short: IdxPool, pub factor: S, pub ticks: Ghost<Seq<u64>> }
pub open spec fn fidx(m: XMarket, is_long: bool, c: bool) -> int { ip(if is_long { m.fa_long } else { m.fa_short }, c) }
pub open spec fn cidx(m: XMarket, is_long: bool, c: bool) -> int { ip(if is_long { m.cl_long } else { m.cl_short }, c) }
impl XMarket {
    pub fn funding_amount_per_size_pool_mut(&mut self, is_long: bool) -> (r: Result<&mut IdxPool, E>)
        ensures r.is_ok(), *r.unwrap() == (if is_long { old(self).fa_long } else { old(self).fa_short }),
            is_long ==> *final(self) == (XMarket { fa_long: *final(r.unwrap()), ..*old(self) }),
            !is_long ==> *final(self) == (XMarket { fa_short: *final(r.unwrap()), ..*old(self) }),
    { if is_long { Ok(&mut self.fa_long) } else { Ok(&mut self.fa_short) } }
    pub fn claimable_funding_amount_per_size_pool_mut(&mut self, is_long: bool) -> (r: Result<&mut IdxPool, E>)
        ensures r.is_ok(), *r.unwrap() == (if is_long { old(self).cl_long } else { old(self).cl_short }),
            is_long ==> *final(self) == (XMarket { cl_long: *final(r.unwrap()), ..*old(self) }),
            !is_long ==> *final(self) == (XMarket { cl_short: *final(r.unwrap()), ..*old(self) }),
    { if is_long { Ok(&mut self.cl_long) } else { Ok(&mut self.cl_short) } }
    pub fn funding_factor_per_second_mut(&mut self) -> (r: &mut S)
        ensures *r == old(self).factor, *final(self) == (XMarket { factor: *final(r), ..*old(self) })
    { &mut self.factor }
    /// ASSUMED (clock): hands out the elapsed seconds and restarts the funding clock
    #[verifier::external_body]
    pub fn just_passed_in_seconds_for_funding(&mut self) -> (r: Result<u64, E>)
        ensures r.is_ok() ==> *final(self) == (XMarket { ticks: Ghost(old(self).ticks@.push(r.unwrap())), ..*old(self) }), r.is_err() ==> *final(self) == *old(self)
    { unimplemented!() }

//@unit C12.PerpMarketMutExt.apply_delta_to_funding_amount_per_size
//@ file crates/model/src/market/perp.rs
//@ within pub trait PerpMarketMutExt<const DECIMALS: u8>: PerpMarketMut<DECIMALS>
//@ fn apply_delta_to_funding_amount_per_size
//@ sig fn apply_delta_to_funding_amount_per_size( &mut self, is_long: bool, is_long_collateral: bool, delta: &Self::Signed, ) -> crate::Result<()>
    pub fn apply_delta_to_funding_amount_per_size(&mut self, is_long: bool, is_long_collateral: bool, delta: &S) -> (r: Result<(), E>)
        ensures
            r.is_ok() ==> fidx(*final(self), is_long, is_long_collateral) == fidx(*old(self), is_long, is_long_collateral) + delta@
                && fidx(*final(self), is_long, !is_long_collateral) == fidx(*old(self), is_long, !is_long_collateral)
                && fidx(*final(self), !is_long, true) == fidx(*old(self), !is_long, true) && fidx(*final(self), !is_long, false) == fidx(*old(self), !is_long, false)
                && final(self).cl_long == old(self).cl_long && final(self).cl_short == old(self).cl_short && final(self).factor == old(self).factor && final(self).ticks@ == old(self).ticks@,
            r.is_err() ==> *final(self) == *old(self),
//@body

//@unit C12.PerpMarketMutExt.apply_delta_to_claimable_funding_amount_per_size
//@ file crates/model/src/market/perp.rs
//@ within pub trait PerpMarketMutExt<const DECIMALS: u8>: PerpMarketMut<DECIMALS>
//@ fn apply_delta_to_claimable_funding_amount_per_size
//@ sig fn apply_delta_to_claimable_funding_amount_per_size( &mut self, is_long: bool, is_long_collateral: bool, delta: &Self::Signed, ) -> crate::Result<()>
    pub fn apply_delta_to_claimable_funding_amount_per_size(&mut self, is_long: bool, is_long_collateral: bool, delta: &S) -> (r: Result<(), E>)
        ensures
            r.is_ok() ==> cidx(*final(self), is_long, is_long_collateral) == cidx(*old(self), is_long, is_long_collateral) + delta@
                && cidx(*final(self), is_long, !is_long_collateral) == cidx(*old(self), is_long, !is_long_collateral)
                && cidx(*final(self), !is_long, true) == cidx(*old(self), !is_long, true) && cidx(*final(self), !is_long, false) == cidx(*old(self), !is_long, false)
                && final(self).fa_long == old(self).fa_long && final(self).fa_short == old(self).fa_short && final(self).factor == old(self).factor && final(self).ticks@ == old(self).ticks@,
            r.is_err() ==> *final(self) == *old(self),
//@body
}

/// how often the pair (is_long, c) occurs among the first `k` entries of the walk
pub open spec fn cnt(s: Seq<(bool, bool)>, k: int, is_long: bool, c: bool) -> int decreases k {
    if k <= 0 { 0 } else { cnt(s, k - 1, is_long, c) + (if s[k - 1] == (is_long, c) { 1int } else { 0int }) }
}
/// after `k` steps of the walk `s`: both indices of a pair have moved up by its (unsigned) delta once per visit
pub open spec fn walked(m0: XMarket, m: XMarket, rep: UpdateFundingReport, s: Seq<(bool, bool)>, k: int, is_long: bool, c: bool) -> bool {
    &&& fidx(m, is_long, c) == fidx(m0, is_long, c) + cnt(s, k, is_long, c) * rep.delta_funding_amount_per_size[slot(is_long, c)]@
    &&& cidx(m, is_long, c) == cidx(m0, is_long, c) + cnt(s, k, is_long, c) * rep.delta_claimable_funding_amount_per_size[slot(is_long, c)]@
}
pub open spec fn walked_all(m0: XMarket, m: XMarket, rep: UpdateFundingReport, s: Seq<(bool, bool)>, k: int) -> bool {
    walked(m0, m, rep, s, k, true, true) && walked(m0, m, rep, s, k, true, false) && walked(m0, m, rep, s, k, false, true) && walked(m0, m, rep, s, k, false, false)
}
/// every index has moved up by exactly its delta
pub open spec fn moved_once(m0: XMarket, m: XMarket, rep: UpdateFundingReport, is_long: bool, c: bool) -> bool {
    fidx(m, is_long, c) == fidx(m0, is_long, c) + rep.delta_funding_amount_per_size[slot(is_long, c)]@
        && cidx(m, is_long, c) == cidx(m0, is_long, c) + rep.delta_claimable_funding_amount_per_size[slot(is_long, c)]@
}
pub proof fn lemma_once(m0: XMarket, m: XMarket, rep: UpdateFundingReport, s: Seq<(bool, bool)>)
    requires walked_all(m0, m, rep, s, 4), cnt(s, 4, true, true) == 1 && cnt(s, 4, true, false) == 1 && cnt(s, 4, false, true) == 1 && cnt(s, 4, false, false) == 1
    ensures moved_once(m0, m, rep, true, true) && moved_once(m0, m, rep, true, false) && moved_once(m0, m, rep, false, true) && moved_once(m0, m, rep, false, false)
{
    lemma_mul_basics(rep.delta_funding_amount_per_size[0]@); lemma_mul_basics(rep.delta_funding_amount_per_size[1]@);
    lemma_mul_basics(rep.delta_funding_amount_per_size[2]@); lemma_mul_basics(rep.delta_funding_amount_per_size[3]@);
    lemma_mul_basics(rep.delta_claimable_funding_amount_per_size[0]@); lemma_mul_basics(rep.delta_claimable_funding_amount_per_size[1]@);
    lemma_mul_basics(rep.delta_claimable_funding_amount_per_size[2]@); lemma_mul_basics(rep.delta_claimable_funding_amount_per_size[3]@);
}
pub proof fn lemma_walk_step(m0: XMarket, m2: XMarket, m3: XMarket, rep: UpdateFundingReport, s: Seq<(bool, bool)>, k: int, a: bool, b: bool)
    requires 0 <= k < s.len(), s[k] == (a, b), walked_all(m0, m2, rep, s, k),
        fidx(m3, a, b) == fidx(m2, a, b) + rep.delta_funding_amount_per_size[slot(a, b)]@, cidx(m3, a, b) == cidx(m2, a, b) + rep.delta_claimable_funding_amount_per_size[slot(a, b)]@,
        fidx(m3, a, !b) == fidx(m2, a, !b) && fidx(m3, !a, true) == fidx(m2, !a, true) && fidx(m3, !a, false) == fidx(m2, !a, false),
        cidx(m3, a, !b) == cidx(m2, a, !b) && cidx(m3, !a, true) == cidx(m2, !a, true) && cidx(m3, !a, false) == cidx(m2, !a, false),
    ensures walked_all(m0, m3, rep, s, k + 1)
{
    let df = rep.delta_funding_amount_per_size[slot(a, b)]@; let dc = rep.delta_claimable_funding_amount_per_size[slot(a, b)]@;
    assert(cnt(s, k + 1, a, b) == cnt(s, k, a, b) + 1);
    assert(cnt(s, k + 1, a, !b) == cnt(s, k, a, !b));
    assert(cnt(s, k + 1, !a, true) == cnt(s, k, !a, true));
    assert(cnt(s, k + 1, !a, false) == cnt(s, k, !a, false));
    lemma_mul_is_distributive_add_other_way(df, cnt(s, k, a, b), 1);
    lemma_mul_is_distributive_add_other_way(dc, cnt(s, k, a, b), 1);
}
pub struct UpdateFundingStateX { pub market: XMarket }
impl UpdateFundingStateX {
    /// ASSUMED: next_funding_amount_per_size (the rate: unit C12.next_funding_factor_per_second above; the deltas: C08 set_deltas):
    /// an arbitrary report for that duration - its deltas are unsigned by type
    #[verifier::external_body]
    fn next_funding_amount_per_size(&self, duration_in_seconds: u64) -> (r: Result<UpdateFundingReport, E>)
        ensures r.is_ok() ==> r.unwrap().duration_in_seconds == duration_in_seconds
    { unimplemented!() }

//@unit C12.UpdateFundingState.execute
//@ file crates/model/src/action/update_funding_state.rs
//@ within impl<M: PerpMarketMut<DECIMALS>, const DECIMALS: u8> MarketAction
//@ fn execute
//@ sig fn execute(mut self) -> crate::Result<Self::Report>
//@ sub const MATRIX: \[\(bool, bool\); 4\] = => let MATRIX: [(bool, bool); 4] =
//@ sub for \(is_long, is_long_collateral\) in MATRIX \{ => let ghost m1 = self.market; let mut _k12: usize = 0; while _k12 < 4 { let (is_long, is_long_collateral) = MATRIX[_k12]; let ghost m2 = self.market; _k12 += 1;
//@ loop 1: invariant _k12 <= 4, walked_all(m1, self.market, report, MATRIX@, _k12 as int), self.market.factor == m1.factor, self.market.ticks@ == m1.ticks@, decreases 4 - _k12,
//@ after .apply_delta_to_claimable_funding_amount_per_size( :: proof { lemma_walk_step(m1, m2, self.market, report, MATRIX@, _k12 as int - 1, is_long, is_long_collateral); }
//@ before Ok(report) :: proof { reveal_with_fuel(cnt, 6); assert(cnt(MATRIX@, 4, true, true) == 1 && cnt(MATRIX@, 4, true, false) == 1 && cnt(MATRIX@, 4, false, true) == 1 && cnt(MATRIX@, 4, false, false) == 1); lemma_once(m1, self.market, report, MATRIX@); }
    #[verifier::loop_isolation(false)]
    fn execute(&mut self) -> (r: Result<UpdateFundingReport, E>)
        ensures
            // the clock is read and restarted exactly once and the report is for exactly those seconds
            r.is_ok() ==> final(self).market.ticks@ == old(self).market.ticks@.push(r.unwrap().duration_in_seconds),
            // EVERY ONE OF THE EIGHT INDICES MOVES UP BY ITS (UNSIGNED) DELTA: none ever decreases
            r.is_ok() ==> moved_once(old(self).market, final(self).market, r.unwrap(), true, true) && moved_once(old(self).market, final(self).market, r.unwrap(), true, false)
                && moved_once(old(self).market, final(self).market, r.unwrap(), false, true) && moved_once(old(self).market, final(self).market, r.unwrap(), false, false),
            r.is_ok() ==> fidx(final(self).market, true, true) >= fidx(old(self).market, true, true) && fidx(final(self).market, true, false) >= fidx(old(self).market, true, false)
                && fidx(final(self).market, false, true) >= fidx(old(self).market, false, true) && fidx(final(self).market, false, false) >= fidx(old(self).market, false, false)
                && cidx(final(self).market, true, true) >= cidx(old(self).market, true, true) && cidx(final(self).market, true, false) >= cidx(old(self).market, true, false)
                && cidx(final(self).market, false, true) >= cidx(old(self).market, false, true) && cidx(final(self).market, false, false) >= cidx(old(self).market, false, false),
            // the stored rate becomes the reported next rate
            r.is_ok() ==> final(self).market.factor == r.unwrap().next_funding_factor_per_second,
//@body
}
} // verus!
