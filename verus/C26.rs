#[allow(unused_imports)]
use vstd::prelude::*;
#[allow(unused_imports)]
use vstd::std_specs::cmp::*;
#[allow(unused_imports)]
use vstd::arithmetic::mul::*;
#[allow(unused_imports)]
use vstd::arithmetic::div_mod::*;
#[allow(unused_imports)]
use core::cmp::Ordering;
//@include inc/pow10.rs
//@include inc/decimal.rs
