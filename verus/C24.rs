//@include inc/model_base_u128.rs
//@include inc/glue_u128.rs
//@include inc/price.rs
//@include inc/pow10.rs
//@include inc/decimal.rs
// =================================================================================================
// C24  Only fresh, well-formed, in-band oracle prices are used
//      programs/store/src/states/oracle/validator.rs :: PriceValidator::{validate_one, merge_range, finish}
//      programs/store/src/states/oracle/price_map.rs :: SmallPrices::from_price (validation part)
// =================================================================================================
//@const programs/store/src/constants/mod.rs :: MARKET_DECIMALS :: u8 = Decimal::MAX_DECIMALS
//@include inc/oracle_price.rs
verus! {
// ASSUMED std contract (vstd has none; it has checked_sub_unsigned / checked_add_unsigned)
pub assume_specification [i64::saturating_add_unsigned] (a: i64, b: u64) -> (r: i64)
    ensures r == (if a + b <= i64::MAX { a + b } else { i64::MAX as int });

/// solana Clock sysvar: only the field read here
pub struct Clock { pub unix_timestamp: i64 }
pub struct PriceProviderKind { pub kind: u8 }
/// Carrier for the two per-provider reads of TokenConfig (None = the provider has no feed config => error)
pub struct TokenConfig { pub timestamp_adjustment: Option<u32>, pub max_deviation_factor: Option<Option<u128>>, pub enabled: bool, pub synthetic: bool }
impl TokenConfig {
    pub fn is_enabled(&self) -> (r: bool) ensures r == self.enabled { self.enabled }
    pub fn is_synthetic(&self) -> (r: bool) ensures r == self.synthetic { self.synthetic }
    pub fn timestamp_adjustment(&self, _p: &PriceProviderKind) -> (r: Result<u32, E>)
        ensures r.is_ok() == self.timestamp_adjustment.is_some(), r.is_ok() ==> r.unwrap() == self.timestamp_adjustment.unwrap()
    { match self.timestamp_adjustment { Some(x) => Ok(x), None => Err(E::Other) } }
    pub fn max_deviation_factor(&self, _p: &PriceProviderKind) -> (r: Result<Option<u128>, E>)
        ensures r.is_ok() == self.max_deviation_factor.is_some(), r.is_ok() ==> r.unwrap() == self.max_deviation_factor.unwrap()
    { match self.max_deviation_factor { Some(x) => Ok(x), None => Err(E::Other) } }
}

//@struct programs/store/src/states/oracle/validator.rs :: pub struct PriceValidator :: clock, max_age, max_oracle_timestamp_range, max_future_timestamp_excess, min_oracle_ts, max_oracle_ts, min_oracle_slot
pub struct PriceValidator {
    pub clock: Clock, pub max_age: u64, pub max_oracle_timestamp_range: u64, pub max_future_timestamp_excess: u64,
    pub min_oracle_ts: i64, pub max_oracle_ts: i64, pub min_oracle_slot: Option<u64>,
}

pub open spec fn tmin(a: int, b: int) -> int { if a <= b { a } else { b } }
pub open spec fn tmax(a: int, b: int) -> int { if a >= b { a } else { b } }
pub open spec fn adist(a: int, b: int) -> int { if a >= b { a - b } else { b - a } }
/// the validator's tolerance: the configured deviation rounded UP to the price step of the max side
pub open spec fn dev_rounded(dev: int, step: int) -> int { ((dev + step - 1) / step) * step }

impl PriceValidator {
//@unit C24.PriceValidator.merge_range
//@ file programs/store/src/states/oracle/validator.rs
//@ within impl PriceValidator
//@ fn merge_range
//@ sig fn merge_range( &mut self, min_oracle_slot: Option<u64>, min_oracle_ts: i64, max_oracle_ts: i64, )
    pub fn merge_range(&mut self, min_oracle_slot: Option<u64>, min_oracle_ts: i64, max_oracle_ts: i64)
        ensures
            final(self).min_oracle_ts == tmin(old(self).min_oracle_ts as int, min_oracle_ts as int),
            final(self).max_oracle_ts == tmax(old(self).max_oracle_ts as int, max_oracle_ts as int),
            final(self).min_oracle_slot == (match (old(self).min_oracle_slot, min_oracle_slot) {
                (Some(a), Some(b)) => Some(if a <= b { a } else { b }), (None, Some(b)) => Some(b), (Some(a), None) => Some(a), (None, None) => None::<u64> }),
            final(self).clock == old(self).clock, final(self).max_age == old(self).max_age,
            final(self).max_oracle_timestamp_range == old(self).max_oracle_timestamp_range,
            final(self).max_future_timestamp_excess == old(self).max_future_timestamp_excess,
//@body

//@unit C24.PriceValidator.validate_one
//@ file programs/store/src/states/oracle/validator.rs
//@ within impl PriceValidator
//@ fn validate_one
//@ sig fn validate_one( &mut self, token_config: &TokenConfig, provider: &PriceProviderKind, oracle_ts: i64, oracle_slot: u64, price: &Price, ref_price: Option<&Decimal>, ) -> Result<()>
//@ sub use gmsol_model::utils::apply_factor; => 
//@ sub \.map_err\(E::Other\)\?\s*\.into\(\); => ? as u64;
//@ sub \.map_err\(E::Other\)\s*\.map_err\(\|err\| error!\(err\)\)\? => ?
//@ sub gmsol_model::price::Price::<u128>::from\(price\) => PriceP::from(price)
    pub fn validate_one(&mut self, token_config: &TokenConfig, provider: &PriceProviderKind, oracle_ts: i64, oracle_slot: u64, price: &UPrice, ref_price: Option<&Decimal>) -> (r: Result<(), E>)
        requires
            dec_wf(price.min), dec_wf(price.max),
            ref_price.is_some() ==> dec_wf(*ref_price.unwrap()),
        ensures
            // an accepted price comes from a configured provider
            r.is_ok() ==> token_config.timestamp_adjustment.is_some() && token_config.max_deviation_factor.is_some(),
            // freshness: after the per-feed timestamp adjustment it is no older than the maximum age ...
            r.is_ok() ==> old(self).clock.unix_timestamp - (oracle_ts - token_config.timestamp_adjustment.unwrap()) <= old(self).max_age,
            // ... and not too far in the future
            r.is_ok() ==> oracle_ts - old(self).clock.unix_timestamp <= old(self).max_future_timestamp_excess,
            // deviation: with a configured factor and a non-zero deviation, both sides are within the
            // deviation (rounded up to the price step of the max side) from the reference price
            (r.is_ok() && token_config.max_deviation_factor.unwrap().is_some()
                && dev_of(*price, ref_price, token_config.max_deviation_factor.unwrap().unwrap()) > 0) ==> ({
                    let reference = reference_of(*price, ref_price);
                    let tol = dev_rounded(dev_of(*price, ref_price, token_config.max_deviation_factor.unwrap().unwrap()), p10(price.max.decimal_multiplier as nat));
                    adist(unit_price(price.max), reference) <= tol && adist(unit_price(price.min), reference) <= tol
                }),
            // the adjusted timestamp is merged into the validator's range
            r.is_ok() ==> final(self).min_oracle_ts == tmin(old(self).min_oracle_ts as int, oracle_ts - token_config.timestamp_adjustment.unwrap())
                && final(self).max_oracle_ts == tmax(old(self).max_oracle_ts as int, oracle_ts - token_config.timestamp_adjustment.unwrap()),
            final(self).clock == old(self).clock && final(self).max_age == old(self).max_age
                && final(self).max_oracle_timestamp_range == old(self).max_oracle_timestamp_range
                && final(self).max_future_timestamp_excess == old(self).max_future_timestamp_excess,
//@body

//@unit C24.PriceValidator.finish
//@ file programs/store/src/states/oracle/validator.rs
//@ within impl PriceValidator
//@ fn finish
//@ sig fn finish(self) -> Result<Option<(u64, i64, i64)>>
//@ sub \.map\(\|slot\| \(slot, self\.min_oracle_ts, self\.max_oracle_ts\)\) => .map(|slot: u64| -> (o: (u64, i64, i64)) ensures o == (slot, self.min_oracle_ts, self.max_oracle_ts) { (slot, self.min_oracle_ts, self.max_oracle_ts) })
    pub fn finish(self) -> (r: Result<Option<(u64, i64, i64)>, E>)
        ensures
            // the spread of (adjusted) timestamps across tokens is within the allowed range
            r.is_ok() ==> 0 <= self.max_oracle_ts - self.min_oracle_ts <= self.max_oracle_timestamp_range,
            r.is_ok() && r.unwrap().is_some() ==> r.unwrap().unwrap().1 == self.min_oracle_ts && r.unwrap().unwrap().2 == self.max_oracle_ts,
//@body
}
// ---- SmallPrices::from_price: the well-formedness gate every stored price passes ------------------
pub enum OraclePriceFlag { Synthetic, Open }
/// Carrier for the flags!-generated container (bit container; its bit semantics are not part of this property)
pub struct OraclePriceFlagContainer { pub synthetic: bool, pub open: bool }
impl OraclePriceFlagContainer {
    pub fn default() -> (r: Self) ensures !r.synthetic && !r.open { OraclePriceFlagContainer { synthetic: false, open: false } }
    pub fn set_flag(&mut self, flag: OraclePriceFlag, value: bool) -> (r: bool)
        ensures match flag { OraclePriceFlag::Synthetic => final(self).synthetic == value && final(self).open == old(self).open,
                             OraclePriceFlag::Open => final(self).open == value && final(self).synthetic == old(self).synthetic }
    { match flag { OraclePriceFlag::Synthetic => { let o = self.synthetic; self.synthetic = value; o } OraclePriceFlag::Open => { let o = self.open; self.open = value; o } } }
}
//@struct programs/store/src/states/oracle/price_map.rs :: pub struct SmallPrices :: decimal_multiplier, flags, padding_0, min, max
pub struct SmallPrices { pub decimal_multiplier: u8, pub flags: OraclePriceFlagContainer, pub padding_0: [u8; 2], pub min: u32, pub max: u32 }

impl SmallPrices {
//@unit C24.SmallPrices.from_price
//@ file programs/store/src/states/oracle/price_map.rs
//@ within impl SmallPrices
//@ fn from_price
//@ sig fn from_price( price: &gmsol_utils::Price, is_synthetic: bool, is_open: bool, ) -> Result<Self>
    pub fn from_price(price: &UPrice, is_synthetic: bool, is_open: bool) -> (r: Result<SmallPrices, E>)
        ensures
            // accepted  <==>  0 < min <= max with the same decimal multiplier on both bounds
            r.is_ok() <==> (price.min.decimal_multiplier == price.max.decimal_multiplier && price.min.value != 0 && price.max.value >= price.min.value),
            r.is_ok() ==> r.unwrap().min == price.min.value && r.unwrap().max == price.max.value
                && r.unwrap().decimal_multiplier == price.min.decimal_multiplier
                && r.unwrap().flags.synthetic == is_synthetic && r.unwrap().flags.open == is_open,
//@body
}

/// well-formed stored prices have 0 < unit(min) <= unit(max)
pub proof fn lemma_stored_price_ordered(price: UPrice)
    requires price.min.decimal_multiplier == price.max.decimal_multiplier, price.min.value != 0, price.max.value >= price.min.value
    ensures 0 < unit_price(price.min) <= unit_price(price.max)
{
    lemma_p10_pos(price.min.decimal_multiplier as nat);
    lemma_mul_inequality(price.min.value as int, price.max.value as int, p10(price.min.decimal_multiplier as nat));
    lemma_mul_strictly_positive(price.min.value as int, p10(price.min.decimal_multiplier as nat));
}
// ---- KNOWN FINDING (known_findings.txt) ------------------------------------------------------------
/// The statement says an accepted price is "within the configured deviation from the reference price".
/// What validate_one guarantees (proved above) is the deviation ROUNDED UP to the price step of the max
/// side. The literal clause is therefore this implication -- which is false whenever the step is > 1 and
/// the deviation is not a multiple of it (witness below); Verus rejects it on every run and the runner
/// reports it as the listed known finding. It is kept as its own obligation: no other failure of C24 is
/// suppressed by it.
//@own-begin
pub proof fn finding_deviation_is_rounded_up_to_price_step(dev: int, step: int, reference: int, p: int)
    requires dev > 0, step >= 1, adist(p, reference) <= dev_rounded(dev, step)
    ensures adist(p, reference) <= dev
{
}
//@own-end
/// machine-checked witness that the literal clause fails: reference 1000 (value 100, multiplier 1 => step 10),
/// factor 0.5% => configured deviation 5, max price 1010 (value 101): accepted tolerance is 10.
pub proof fn finding_witness()
    ensures deviation(1000, 500000000000000000) == 5, dev_rounded(5, 10) == 10, adist(1010, 1000) <= dev_rounded(5, 10), !(adist(1010, 1000) <= 5)
{
    assert(mul_div_floor(1000, 500000000000000000, 100000000000000000000) == 5) by(compute);
    assert(dev_rounded(5, 10) == 10) by(compute);
}
} // verus!
