//@include inc/model_base_u128.rs
// =================================================================================================
// C09 (dispatch)  programs/store/src/ops/order.rs :: ExecuteOrderOperation::perform_execution - the statement
//      `let (should_remove_position, paid_fee_value) = match kind { .. };` as ONE unit (`//@ block`): which position executor runs for
//      which order kind, with which "insolvent close allowed" flag and which secondary order type (the liquidation / ADL admission
//      checks of execute_decrease_position - verus/C09_store.rs - are selected by that secondary type).
//      The rest of the ~180-line function is dropped (logged). Assumed: the two executors as calls that leave a ghost record of
//      their flag arguments on the position; the two loaders (`event_loader.load_mut()?`, `self.order.load_mut()?`) as projections
//      of the context (their failure path is dropped: logged unit rewrites). The precondition - the kind is one of the seven
//      position kinds - is the pattern of the enclosing match arm (its `_ => unreachable!()` is proved unreachable under it).
// =================================================================================================
verus! {
//@struct crates/utils/src/order.rs :: pub enum OrderKind ::
#[derive(Clone, Copy, PartialEq, Eq)]
pub enum OrderKind { Liquidation, AutoDeleveraging, MarketSwap, MarketIncrease, MarketDecrease, LimitSwap, LimitIncrease, LimitDecrease, StopLossDecrease }
//@struct programs/store/src/ops/order.rs :: enum SecondaryOrderType ::
pub enum SecondaryOrderType { Liquidation, AutoDeleveraging }
pub struct OracleC { pub tag: u8 }
pub struct PricesC { pub tag: u8 }
pub struct SwapMarketsC { pub tag: u8 }
pub struct TransferOutC { pub tag: u8 }
pub struct TradeDataC { pub tag: u8 }
pub struct OrderC { pub tag: u8 }
/// ghost record of one executor call
pub struct Call { pub increase: bool, pub insolvent_close_allowed: bool, pub secondary: Option<SecondaryOrderType> }
pub struct PositionC { pub calls: Ghost<Seq<Call>> }
pub struct Ctx { pub oracle: OracleC, pub position: PositionC, pub swap_markets: SwapMarketsC, pub transfer_out: TransferOutC, pub event: TradeDataC, pub order: OrderC }
/// what execute_decrease_position answers (remove the position?, paid fee value) - an uninterpreted function of the call
pub uninterp spec fn decrease_result(c: Call) -> (bool, u128);

#[verifier::external_body]
fn execute_increase_position(oracle: &OracleC, prices: PricesC, position: &mut PositionC, swap_markets: &mut SwapMarketsC, transfer_out: &mut TransferOutC,
        event: &mut TradeDataC, order: &mut OrderC, builder_fee_factor: u128) -> (r: Result<u128, E>)
    ensures r.is_ok() ==> final(position).calls@ == old(position).calls@.push(Call { increase: true, insolvent_close_allowed: false, secondary: None }),
{ unimplemented!() }
#[verifier::external_body]
fn execute_decrease_position(oracle: &OracleC, prices: PricesC, position: &mut PositionC, swap_markets: &mut SwapMarketsC, transfer_out: &mut TransferOutC,
        event: &mut TradeDataC, order: &mut OrderC, is_insolvent_close_allowed: bool, secondary_order_type: Option<SecondaryOrderType>, builder_fee_factor: u128) -> (r: Result<(bool, u128), E>)
    ensures r.is_ok() ==> final(position).calls@ == old(position).calls@.push(Call { increase: false, insolvent_close_allowed: is_insolvent_close_allowed, secondary: secondary_order_type })
        && r.unwrap() == decrease_result(Call { increase: false, insolvent_close_allowed: is_insolvent_close_allowed, secondary: secondary_order_type }),
{ unimplemented!() }

/// THE TABLE, from the statement: only a liquidation order runs the liquidation path, only an ADL order the ADL path; ordinary
/// decrease orders run with no secondary type and may not close an insolvent position; increase orders run the increase executor
pub open spec fn call_for(kind: OrderKind) -> Call {
    match kind {
        OrderKind::MarketIncrease | OrderKind::LimitIncrease => Call { increase: true, insolvent_close_allowed: false, secondary: None },
        OrderKind::Liquidation => Call { increase: false, insolvent_close_allowed: true, secondary: Some(SecondaryOrderType::Liquidation) },
        OrderKind::AutoDeleveraging => Call { increase: false, insolvent_close_allowed: true, secondary: Some(SecondaryOrderType::AutoDeleveraging) },
        _ => Call { increase: false, insolvent_close_allowed: false, secondary: None },
    }
}
pub open spec fn is_position_kind(kind: OrderKind) -> bool { kind != OrderKind::MarketSwap && kind != OrderKind::LimitSwap }

//@unit C09.perform_execution.dispatch_block
//@ file programs/store/src/ops/order.rs
//@ within impl ExecuteOrderOperation<'_, '_>
//@ fn perform_execution
//@ sig fn perform_execution( &self, should_throw_error: &mut bool, prices: Prices<u128>, order_fee_discount_factor: u128, ) -> Result<(RemovePosition, Box<TransferOut>, ShouldSendTradeEvent)>
//@ block let (should_remove_position, paid_fee_value) = match kind { :: ; Ok((should_remove_position, paid_fee_value))
//@ sub self\.oracle, => &c.oracle,
//@ sub &mut position, => &mut c.position,
//@ sub &mut swap_markets, => &mut c.swap_markets,
//@ sub &mut transfer_out, => &mut c.transfer_out,
//@ sub &mut \*event_loader\.load_mut\(\)\?, => &mut c.event,
//@ sub &mut \*self\.order\.load_mut\(\)\?, => &mut c.order,
pub fn dispatch_block(c: &mut Ctx, kind: OrderKind, prices: PricesC) -> (r: Result<(bool, u128), E>)
    requires is_position_kind(kind),
    ensures
        // exactly ONE executor call, the one the table names for this kind
        r.is_ok() ==> final(c).position.calls@ == old(c).position.calls@.push(call_for(kind)),
        // an increase never removes the position; a decrease removes it exactly when the executor says so
        r.is_ok() && call_for(kind).increase ==> r.unwrap().0 == false,
        r.is_ok() && !call_for(kind).increase ==> r.unwrap() == decrease_result(call_for(kind)),
//@body
} // verus!
