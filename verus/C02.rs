//@include inc/model_base_u128.rs
//@include inc/price.rs
// =================================================================================================
// C02  Fee splitting never creates or loses tokens (instance u128 / 20 decimals)
// Callees (apply_factor, checked_round_up_div, ...) are seen through their C01 contracts, whose
// bodies are re-extracted and re-verified in this same file (inc/model_base_u128.rs).
// =================================================================================================
//@include inc/fee.rs
