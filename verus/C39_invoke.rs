//@include C39.rs
// =================================================================================================
// C39 (the call site)  programs/competition/src/instructions/trade_callback.rs :: OnExecuted::invoke (whole handler)
//                      programs/competition/src/states.rs                        :: Competition::is_ongoing
//      Handler technique: the context is a carrier passed by `&mut`; `with_participant(|comp, part| BODY)` - which rebuilds the
//      participant account from the unchecked account, checks that it belongs to this trader and this competition, runs BODY on
//      (competition, participant) and writes the participant back - is replaced by BODY running on the two carrier fields
//      (unit rewrite, logged); the trade event loader is a projection; the Clock sysvar is one uninterpreted value.
// =================================================================================================
verus! {
pub assume_specification [i64::saturating_sub] (a: i64, b: i64) -> (r: i64)
    ensures r == (if a - b > i64::MAX { i64::MAX as int } else if a - b < i64::MIN { i64::MIN as int } else { a - b });
pub assume_specification [u128::abs_diff] (a: u128, b: u128) -> (r: u128)
    ensures r == (if a >= b { a - b } else { b - a });

/// `ActionKind::Order as u8` (gmsol_callback interface): one fixed code
pub uninterp spec fn order_kind_code() -> u8;
#[verifier::external_body]
pub fn action_kind_order() -> (r: u8) ensures r == order_kind_code() { unimplemented!() }

pub struct TradeState { pub size_in_usd: u128 }
/// the part of the store's TradeData the callback reads
pub struct TradeData { pub user: Pubkey, pub before: TradeState, pub after: TradeState }
pub struct TradeLoader { pub data: Option<TradeData> }
impl TradeLoader {
    /// AccountLoader::load: the account data or an error
    pub fn load(&self) -> (r: Result<&TradeData, E>)
        ensures r.is_ok() == self.data.is_some(), r.is_ok() ==> *r.unwrap() == self.data.unwrap()
    { match &self.data { Some(d) => Ok(d), None => Err(E::Other) } }
}
pub struct KeyOnly { pub address: Pubkey }
impl KeyOnly { pub fn key(&self) -> (r: Pubkey) ensures r == self.address { self.address } }
pub struct Accounts { pub competition: Competition, pub part: Participant, pub trader: KeyOnly, pub trade_event: Option<TradeLoader> }
pub struct Ctx { pub accounts: Accounts }

impl Competition {
//@unit C39.Competition.is_ongoing
//@ file programs/competition/src/states.rs
//@ within impl Competition
//@ fn is_ongoing
//@ sig fn is_ongoing(&self, now: i64) -> bool
    pub fn is_ongoing(&self, now: i64) -> (r: bool) ensures r == (self.start_time <= now <= self.end_time)
//@body
}

/// volume of one trade: the size increase only, or the absolute size change
pub open spec fn trade_volume(c: Competition, t: TradeData) -> int {
    if c.only_count_increase { if t.after.size_in_usd >= t.before.size_in_usd { t.after.size_in_usd - t.before.size_in_usd } else { 0 } }
    else { if t.after.size_in_usd >= t.before.size_in_usd { t.after.size_in_usd - t.before.size_in_usd } else { t.before.size_in_usd - t.after.size_in_usd } }
}
/// the trade is counted: a successful order during the competition, with a trade event of this trader and a non-zero volume
pub open spec fn counted(a: Accounts, success: bool) -> bool {
    success && a.competition.start_time <= now_spec() <= a.competition.end_time && a.trade_event.is_some() && a.trade_event.unwrap().data.is_some()
        && trade_volume(a.competition, a.trade_event.unwrap().data.unwrap()) != 0
}
pub open spec fn sat_add(a: int, b: int) -> int { if a + b > u128::MAX { u128::MAX as int } else { a + b } }

//@unit C39.OnExecuted.invoke
//@ file programs/competition/src/instructions/trade_callback.rs
//@ within impl OnExecuted<'_>
//@ fn invoke
//@ sig fn invoke( ctx: Context<Self>, _authority_bump: u8, action_kind: u8, callback_version: u8, success: bool, extra_account_count: u8, ) -> Result<()>
//@ sub CompetitionError::(\w+) => E::Other
//@ sub ActionKind::Order as u8 => action_kind_order()
//@ sub let clock = Clock::get\(\)\?; => let clock = clock_get()?;
//@ sub ctx\.accounts\.with_participant\(\|comp, part\| \{ => let _wp: Result<(), E> = { let comp = &mut ctx.accounts.competition; let part = &mut ctx.accounts.part; let ghost b0 = comp.leaderboard@; let ghost e0 = comp.end_time;
//@ sub \}\)\?;\s*Ok\(\(\)\)\s*$ => }; _wp?; Ok(())
//@ sub Self::extend_competition_time\( => extend_competition_time(
//@ sub Self::update_leaderboard\( => update_leaderboard(
//@ top :: reveal(step_pre);
pub fn invoke(ctx: &mut Ctx, _authority_bump: u8, action_kind: u8, callback_version: u8, success: bool, extra_account_count: u8) -> (r: Result<(), E>)
    requires
        comp_wf(old(ctx).accounts.competition), board_wf(old(ctx).accounts.competition.leaderboard@),
        // the participant account is this trader's (checked by with_participant), and what the board shows for them is at most
        // their stored cumulative volume (it IS their stored volume after every counted trade: step_post)
        old(ctx).accounts.part.trader == old(ctx).accounts.trader.address,
        forall|i: int| 0 <= i < old(ctx).accounts.competition.leaderboard@.len() && old(ctx).accounts.competition.leaderboard@[i].address == old(ctx).accounts.part.trader
            ==> (#[trigger] old(ctx).accounts.competition.leaderboard@[i]).volume <= old(ctx).accounts.part.volume,
    ensures
        r.is_ok() ==> callback_version == 0 && action_kind == order_kind_code() && extra_account_count >= 2,
        // a trade event of somebody else is an error
        r.is_ok() && success && old(ctx).accounts.competition.start_time <= now_spec() <= old(ctx).accounts.competition.end_time
            && old(ctx).accounts.trade_event.is_some() ==> old(ctx).accounts.trade_event.unwrap().data.is_some()
                && old(ctx).accounts.trade_event.unwrap().data.unwrap().user == old(ctx).accounts.trader.address,
        // a trade that is not counted changes nothing
        r.is_ok() && !counted(old(ctx).accounts, success) ==> final(ctx).accounts.competition == old(ctx).accounts.competition && final(ctx).accounts.part == old(ctx).accounts.part,
        // A COUNTED TRADE: the cumulative volume only grows (by the trade's volume, saturating) ...
        r.is_ok() && counted(old(ctx).accounts, success) ==> final(ctx).accounts.part.volume
                == sat_add(old(ctx).accounts.part.volume as int, trade_volume(old(ctx).accounts.competition, old(ctx).accounts.trade_event.unwrap().data.unwrap()))
            && final(ctx).accounts.part.trader == old(ctx).accounts.part.trader && final(ctx).accounts.part.last_updated_at == now_spec(),
        // ... the board is updated with exactly that volume (the step contract of update_leaderboard) ...
        r.is_ok() && counted(old(ctx).accounts, success) ==> step_post(old(ctx).accounts.competition.leaderboard@, final(ctx).accounts.competition.leaderboard@,
                old(ctx).accounts.part.trader, final(ctx).accounts.part.volume),
        // ... and the end time never moves earlier, never past the later of the old end time and now + cap
        r.is_ok() ==> final(ctx).accounts.competition.end_time >= old(ctx).accounts.competition.end_time
            && final(ctx).accounts.competition.end_time <= later(old(ctx).accounts.competition.end_time as int, now_spec() + old(ctx).accounts.competition.extension_cap),
        r.is_ok() ==> comp_wf(final(ctx).accounts.competition),
//@body
} // verus!
