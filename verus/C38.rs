//@include inc/model_base_u128.rs
//@include inc/glue_u128.rs
// =================================================================================================
// C38  LP staking rewards: the GT reward amount  (programs/liquidity-provider/src/lib.rs ::
//      calculate_gt_reward_amount; private free function, extracted by text)
//      and compute_time_weighted_apy (the `.iter().take(n)` loop through rule R9).
//      The unstake handler: verus/C38_unstake.rs.
// =================================================================================================
//@const programs/liquidity-provider/src/lib.rs :: APY_BUCKETS_U8 :: u8 = 53
//@const programs/liquidity-provider/src/lib.rs :: APY_LAST_INDEX_U8 :: u8 = APY_BUCKETS_U8 - 1
//@const programs/liquidity-provider/src/lib.rs :: APY_BUCKETS :: usize = APY_BUCKETS_U8 as usize
//@const programs/liquidity-provider/src/lib.rs :: APY_LAST_INDEX :: usize = APY_LAST_INDEX_U8 as usize
//@const programs/liquidity-provider/src/lib.rs :: SECONDS_PER_WEEK :: u128 = 7 * 24 * 3600
verus! {
pub const APY_BUCKETS: usize = 53;
pub const APY_LAST_INDEX: usize = 52;
pub const SECONDS_PER_WEEK: u128 = 604800;
pub assume_specification<T, Er> [core::result::Result::<T, Er>::unwrap_or] (r: core::result::Result<T, Er>, d: T) -> (o: T)
    ensures o == (match r { Ok(x) => x, Err(_) => d });

// ---- the statement: the APY of a second is the weekly bucket of that second, weeks past the last bucket use the last
pub open spec fn week() -> int { 604800 }
/// APY bucket that applies during week number w (0-based) of a stake
pub open spec fn bucket(g: Seq<u128>, w: int) -> int { if w < 52 { g[w] as int } else { g[52] as int } }
/// sum over the first t elapsed seconds of the bucket of each second
pub open spec fn sec_sum(g: Seq<u128>, t: nat) -> int decreases t {
    if t == 0 { 0 } else { sec_sum(g, (t - 1) as nat) + bucket(g, (t - 1) / week()) }
}
/// the same sum over whole weeks
pub open spec fn week_sum(g: Seq<u128>, w: nat) -> int decreases w {
    if w == 0 { 0 } else { week_sum(g, (w - 1) as nat) + bucket(g, w - 1) * week() }
}
pub proof fn lemma_week_sum_nonneg_mono(g: Seq<u128>, a: nat, b: nat)
    requires g.len() == 53, a <= b
    ensures 0 <= week_sum(g, a) <= week_sum(g, b)
    decreases b
{
    if b > 0 {
        lemma_mul_nonnegative(bucket(g, b - 1), week());
        if a < b { lemma_week_sum_nonneg_mono(g, a, (b - 1) as nat); } else { lemma_week_sum_nonneg_mono(g, (a - 1) as nat, (b - 1) as nat); }
    }
}
/// seconds of week w: sec_sum(w weeks + r seconds) = week_sum(w) + r x bucket(w)   (r up to a whole week)
pub proof fn lemma_sec_week(g: Seq<u128>, w: nat, r: nat)
    requires g.len() == 53, r <= week()
    ensures sec_sum(g, (w * week() + r) as nat) == week_sum(g, w) + r * bucket(g, w as int)
    decreases w, r
{
    lemma_mul_nonnegative(w as int, week());
    if r == 0 {
        lemma_mul_basics(bucket(g, w as int));
        if w > 0 {
            lemma_sec_week(g, (w - 1) as nat, week() as nat);
            lemma_mul_is_distributive_sub_other_way(week(), w as int, 1);
            lemma_mul_is_commutative(week(), bucket(g, w - 1));
            assert((w - 1) * week() + week() == w * week());
        }
    } else {
        lemma_sec_week(g, w, (r - 1) as nat);
        let t = w * week() + r;
        // the second t-1 lies in week w
        lemma_fundamental_div_mod_converse(t - 1, week(), w as int, r - 1);
        lemma_mul_is_distributive_sub_other_way(bucket(g, w as int), r as int, 1);
    }
}
/// weeks past the last bucket use the last bucket
pub proof fn lemma_week_tail(g: Seq<u128>, w: nat)
    requires g.len() == 53, w >= 52
    ensures week_sum(g, w) == week_sum(g, 52) + (g[52] as int) * (week() * (w - 52))
    decreases w
{
    if w == 52 { lemma_mul_basics(g[52] as int); }
    else {
        lemma_week_tail(g, (w - 1) as nat);
        lemma_mul_is_distributive_add(g[52] as int, week() * (w - 1 - 52), week());
        lemma_mul_is_distributive_add(week(), w - 1 - 52, 1);
    }
}
/// the exact time-weighted sum as the code accumulates it
pub proof fn lemma_apy_decomposition(g: Seq<u128>, t: nat)
    requires g.len() == 53
    ensures ({
        let fw = t / (week() as nat); let rem = t % (week() as nat); let cf = if fw < 52 { fw } else { 52 };
        &&& sec_sum(g, t) == week_sum(g, cf) + (if fw > 52 { (g[52] as int) * (week() * (fw - 52)) } else { 0 }) + (g[cf as int] as int) * rem
        &&& 0 <= week_sum(g, cf)
        &&& fw > 52 ==> 0 <= (g[52] as int) * (week() * (fw - 52)) && 0 <= week() * (fw - 52)
        &&& 0 <= (g[cf as int] as int) * rem
        &&& fw > 52 ==> week() * (fw - 52) <= t
        &&& rem == 0 ==> (g[cf as int] as int) * rem == 0
    })
{
    let fw = t / (week() as nat); let rem = t % (week() as nat); let cf: nat = if fw < 52 { fw } else { 52 };
    lemma_fundamental_div_mod(t as int, week()); lemma_mod_bound(t as int, week());
    lemma_mul_is_commutative(week(), fw as int);
    lemma_sec_week(g, fw, rem);
    lemma_mul_is_commutative(rem as int, bucket(g, fw as int));
    if fw > 52 { lemma_week_tail(g, fw); lemma_mul_nonnegative(week(), fw - 52); lemma_mul_nonnegative(g[52] as int, week() * (fw - 52)); }
    lemma_week_sum_nonneg_mono(g, 0, cf);
    lemma_mul_nonnegative(g[cf as int] as int, rem as int);
    lemma_mul_basics(g[cf as int] as int);
    if fw > 52 { lemma_mul_is_distributive_sub(week(), fw as int, 52); lemma_mul_nonnegative(week(), fw as int); }
}
/// "APY gradients within the cap": an average of buckets that are all at most `cap` is at most `cap`
pub proof fn lemma_average_within_cap(g: Seq<u128>, t: nat, cap: int)
    requires g.len() == 53, t > 0, forall|i: int| 0 <= i < 53 ==> g[i] <= cap
    ensures 0 <= sec_sum(g, t) <= cap * t, sec_sum(g, t) / (t as int) <= cap
    decreases t
{
    let prev = sec_sum(g, (t - 1) as nat);
    if t > 1 { lemma_average_within_cap(g, (t - 1) as nat, cap); } else { lemma_mul_basics(cap); assert(prev == 0); }
    assert(0 <= prev <= cap * (t - 1));
    lemma_div_pos_is_pos(t - 1, week());
    let b = bucket(g, (t - 1) / week());
    assert(0 <= b <= cap);
    assert(sec_sum(g, t) == prev + b);
    lemma_mul_is_distributive_sub(cap, t as int, 1);
    assert(cap * t == cap * (t - 1) + cap);
    lemma_mul_is_commutative(cap, t as int);
    lemma_div_is_ordered(sec_sum(g, t), cap * t, t as int);
    lemma_div_multiples_vanish(cap, t as int);
}

//@unit C38.compute_time_weighted_apy
//@ file programs/liquidity-provider/src/lib.rs
//@ fn compute_time_weighted_apy
//@ sig fn compute_time_weighted_apy( stake_start_time: i64, now: i64, apy_gradient: &[u128; APY_BUCKETS], ) -> u128
//@ top :: proof { if now > stake_start_time { lemma_apy_decomposition(apy_gradient@, (now - stake_start_time) as nat); } }
//@ loop 1: invariant apy_gradient@.len() == 53, capped_full <= 52, capped_full == (if full_weeks < 52 { full_weeks } else { 52 }), week_sum(apy_gradient@, _i9 as nat) <= u128::MAX ==> acc == week_sum(apy_gradient@, _i9 as nat), 0 <= week_sum(apy_gradient@, _i9 as nat),
//@ after acc = acc.saturating_add(apy_value.saturating_mul(SECONDS_PER_WEEK)); :: proof { lemma_week_sum_nonneg_mono(apy_gradient@, _i9 as nat, (_i9 + 1) as nat); lemma_mul_nonnegative(apy_value as int, week()); }
pub fn compute_time_weighted_apy(stake_start_time: i64, now: i64, apy_gradient: &[u128; APY_BUCKETS]) -> (r: u128)
    requires
        // call-site precondition: the elapsed time is representable (stake times are clock readings)
        now as int - stake_start_time as int <= i64::MAX,
    ensures
        now <= stake_start_time ==> r == apy_gradient[0],
        // the average over each elapsed second of that second's weekly bucket (whenever the exact sum is representable)
        now > stake_start_time && sec_sum(apy_gradient@, (now - stake_start_time) as nat) <= u128::MAX
            ==> r as int == sec_sum(apy_gradient@, (now - stake_start_time) as nat) / (now - stake_start_time),
//@body

/// reward before saturation: floor(floor(stake * apy_per_sec / U) * inv_cost_integral / U)
pub open spec fn reward_raw(stake: int, apy: int, integral: int) -> int {
    mul_div_floor(mul_div_floor(stake, apy, uunit()), integral, uunit())
}

//@unit C38.calculate_gt_reward_amount
//@ file programs/liquidity-provider/src/lib.rs
//@ fn calculate_gt_reward_amount
//@ sig fn calculate_gt_reward_amount( staked_value_usd: u128, duration_seconds: i64, gt_apy_per_sec: u128, inv_cost_integral: u128, ) -> Result<u64>
//@ sub ErrorCode::(\w+) => E::Other
//@ sub apply_factor::<u128, MARKET_DECIMALS> => apply_factor_p
//@ top :: proof { lemma_mul_nonnegative(staked_value_usd as int, gt_apy_per_sec as int); lemma_div_pos_bound(staked_value_usd as int * gt_apy_per_sec as int, uunit()); lemma_mul_nonnegative(mul_div_floor(staked_value_usd as int, gt_apy_per_sec as int, uunit()), inv_cost_integral as int); lemma_div_pos_bound(mul_div_floor(staked_value_usd as int, gt_apy_per_sec as int, uunit()) * inv_cost_integral as int, uunit()); }
pub fn calculate_gt_reward_amount(staked_value_usd: u128, duration_seconds: i64, gt_apy_per_sec: u128, inv_cost_integral: u128) -> (r: Result<u64, E>)
    ensures
        // the reward is the staked value times the per-second APY times the cost integral, rounded down twice,
        // saturated at u64::MAX
        r.is_ok() ==> r.unwrap() as int == (if reward_raw(staked_value_usd as int, gt_apy_per_sec as int, inv_cost_integral as int) > u64::MAX { u64::MAX as int }
                                           else { reward_raw(staked_value_usd as int, gt_apy_per_sec as int, inv_cost_integral as int) }),
        // it is computed whenever both intermediate products fit
        (duration_seconds >= 0 && mul_div_floor(staked_value_usd as int, gt_apy_per_sec as int, uunit()) <= umax()
            && reward_raw(staked_value_usd as int, gt_apy_per_sec as int, inv_cost_integral as int) <= umax()) ==> r.is_ok(),
//@body

/// "rewards never decrease with larger stakes or longer cost integrals"
pub proof fn lemma_reward_monotone(stake1: int, stake2: int, apy: int, integral1: int, integral2: int)
    requires 0 <= stake1 <= stake2, 0 <= apy, 0 <= integral1 <= integral2
    ensures reward_raw(stake1, apy, integral1) <= reward_raw(stake2, apy, integral2)
{
    let u = uunit();
    lemma_mul_inequality(stake1, stake2, apy);
    lemma_mul_nonnegative(stake1, apy);
    lemma_div_is_ordered(stake1 * apy, stake2 * apy, u);
    let a1 = (stake1 * apy) / u;
    let a2 = (stake2 * apy) / u;
    lemma_div_pos_bound(stake1 * apy, u);
    // a1 * integral1 <= a2 * integral2
    lemma_mul_inequality(a1, a2, integral1);
    lemma_mul_is_commutative(a2, integral1);
    lemma_mul_is_commutative(a2, integral2);
    lemma_mul_inequality(integral1, integral2, a2);
    lemma_mul_nonnegative(a1, integral1);
    lemma_div_is_ordered(a1 * integral1, a2 * integral2, u);
}
} // verus!
