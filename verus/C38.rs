//@include inc/model_base_u128.rs
//@include inc/glue_u128.rs
// =================================================================================================
// C38  LP staking rewards: the GT reward amount  (programs/liquidity-provider/src/lib.rs ::
//      calculate_gt_reward_amount; private free function, extracted by text)
//      NOT covered here: compute_time_weighted_apy (iterator adapters + saturating sums), unstake paths.
// =================================================================================================
verus! {
/// reward before saturation: floor(floor(stake * apy_per_sec / U) * inv_cost_integral / U)
pub open spec fn reward_raw(stake: int, apy: int, integral: int) -> int {
    mul_div_floor(mul_div_floor(stake, apy, uunit()), integral, uunit())
}

//@unit C38.calculate_gt_reward_amount
//@ file programs/liquidity-provider/src/lib.rs
//@ fn calculate_gt_reward_amount
//@ sig fn calculate_gt_reward_amount( staked_value_usd: u128, duration_seconds: i64, gt_apy_per_sec: u128, inv_cost_integral: u128, ) -> Result<u64>
//@ sub ErrorCode::(\w+) => E::Other
//@ sub apply_factor::<u128, MARKET_DECIMALS> => apply_factor_p
//@ top :: proof { lemma_mul_nonnegative(staked_value_usd as int, gt_apy_per_sec as int); lemma_div_pos_bound(staked_value_usd as int * gt_apy_per_sec as int, uunit()); lemma_mul_nonnegative(mul_div_floor(staked_value_usd as int, gt_apy_per_sec as int, uunit()), inv_cost_integral as int); lemma_div_pos_bound(mul_div_floor(staked_value_usd as int, gt_apy_per_sec as int, uunit()) * inv_cost_integral as int, uunit()); }
pub fn calculate_gt_reward_amount(staked_value_usd: u128, duration_seconds: i64, gt_apy_per_sec: u128, inv_cost_integral: u128) -> (r: Result<u64, E>)
    ensures
        // the reward is the staked value times the per-second APY times the cost integral, rounded down twice,
        // saturated at u64::MAX
        r.is_ok() ==> r.unwrap() as int == (if reward_raw(staked_value_usd as int, gt_apy_per_sec as int, inv_cost_integral as int) > u64::MAX { u64::MAX as int }
                                           else { reward_raw(staked_value_usd as int, gt_apy_per_sec as int, inv_cost_integral as int) }),
        // it is computed whenever both intermediate products fit
        (duration_seconds >= 0 && mul_div_floor(staked_value_usd as int, gt_apy_per_sec as int, uunit()) <= umax()
            && reward_raw(staked_value_usd as int, gt_apy_per_sec as int, inv_cost_integral as int) <= umax()) ==> r.is_ok(),
//@body

/// "rewards never decrease with larger stakes or longer cost integrals"
pub proof fn lemma_reward_monotone(stake1: int, stake2: int, apy: int, integral1: int, integral2: int)
    requires 0 <= stake1 <= stake2, 0 <= apy, 0 <= integral1 <= integral2
    ensures reward_raw(stake1, apy, integral1) <= reward_raw(stake2, apy, integral2)
{
    let u = uunit();
    lemma_mul_inequality(stake1, stake2, apy);
    lemma_mul_nonnegative(stake1, apy);
    lemma_div_is_ordered(stake1 * apy, stake2 * apy, u);
    let a1 = (stake1 * apy) / u;
    let a2 = (stake2 * apy) / u;
    lemma_div_pos_bound(stake1 * apy, u);
    // a1 * integral1 <= a2 * integral2
    lemma_mul_inequality(a1, a2, integral1);
    lemma_mul_is_commutative(a2, integral1);
    lemma_mul_is_commutative(a2, integral2);
    lemma_mul_inequality(integral1, integral2, a2);
    lemma_mul_nonnegative(a1, integral1);
    lemma_div_is_ordered(a1 * integral1, a2 * integral2, u);
}
} // verus!
