//@include inc/model_base_u128.rs
//@include inc/price.rs
// =================================================================================================
// C06  Liquidity providers cannot profit from a deposit/withdraw round trip  (pricing core)
//      crates/model/src/utils.rs           :: usd_to_market_token_amount, market_token_amount_to_usd   (C01 units, re-proved here)
//      crates/model/src/action/withdraw.rs :: Withdrawal::output_amounts, WithdrawParams accessors
//      crates/model/src/pool/balance.rs    :: BalanceExt::{long_usd_value, short_usd_value}
//      The deposit action itself: verus/C06_deposit.rs.
// =================================================================================================
verus! {
//@struct crates/model/src/market/base.rs :: pub enum PnlFactorKind ::
#[derive(Clone, Copy)]
pub enum PnlFactorKind { MaxAfterDeposit, MaxAfterWithdrawal, MaxForTrader, ForAdl, MinAfterAdl }
//@struct crates/model/src/price.rs :: pub struct Prices<T> :: index_token_price, long_token_price, short_token_price
pub struct Prices { pub index_token_price: Price, pub long_token_price: Price, pub short_token_price: Price }

//@struct crates/model/src/action/withdraw.rs :: pub struct WithdrawParams<T> :: market_token_amount, prices
pub struct WithdrawParams { pub market_token_amount: N, pub prices: Prices }
impl WithdrawParams {
//@unit C06.WithdrawParams.long_token_price
//@ file crates/model/src/action/withdraw.rs
//@ within impl<T> WithdrawParams<T>
//@ fn long_token_price
//@ sig fn long_token_price(&self) -> &Price<T>
    pub fn long_token_price(&self) -> (r: &Price) ensures *r == self.prices.long_token_price
//@body
//@unit C06.WithdrawParams.short_token_price
//@ file crates/model/src/action/withdraw.rs
//@ within impl<T> WithdrawParams<T>
//@ fn short_token_price
//@ sig fn short_token_price(&self) -> &Price<T>
    pub fn short_token_price(&self) -> (r: &Price) ensures *r == self.prices.short_token_price
//@body
}

/// the liquidity pool (`Balance`): two token amounts
#[derive(Clone, Copy)]
pub struct LPool { pub long: N, pub short: N }
impl LPool {
    pub fn long_amount(&self) -> (r: Result<N, E>) ensures r == Ok::<N, E>(self.long) { Ok(self.long) }
    pub fn short_amount(&self) -> (r: Result<N, E>) ensures r == Ok::<N, E>(self.short) { Ok(self.short) }
//@unit C06.BalanceExt.long_usd_value
//@ file crates/model/src/pool/balance.rs
//@ within pub trait BalanceExt: Balance
//@ fn long_usd_value
//@ sig fn long_usd_value(&self, price: &Self::Num) -> crate::Result<Self::Num>
    pub fn long_usd_value(&self, price: &N) -> (r: Result<N, E>)
        ensures r.is_ok() == (self.long@ * price@ <= umax()), r.is_ok() ==> r.unwrap()@ == self.long@ * price@
//@body
//@unit C06.BalanceExt.short_usd_value
//@ file crates/model/src/pool/balance.rs
//@ within pub trait BalanceExt: Balance
//@ fn short_usd_value
//@ sig fn short_usd_value(&self, price: &Self::Num) -> crate::Result<Self::Num>
    pub fn short_usd_value(&self, price: &N) -> (r: Result<N, E>)
        ensures r.is_ok() == (self.short@ * price@ <= umax()), r.is_ok() ==> r.unwrap()@ == self.short@ * price@
//@body
}

/// Carrier for `M: LiquidityMarket`: `pool_value(prices, kind, maximize)` as a fallible table by (kind, maximize) for the two
/// liquidity kinds, `total_supply()`, `liquidity_pool()`.
pub struct WMarket {
    pub value_deposit_max: Option<S>, pub value_deposit_min: Option<S>, pub value_withdrawal_max: Option<S>, pub value_withdrawal_min: Option<S>,
    pub supply: N, pub pool: Option<LPool>,
}
pub open spec fn pool_value_read(m: WMarket, kind: PnlFactorKind, maximize: bool) -> Option<S> {
    match kind {
        PnlFactorKind::MaxAfterDeposit => if maximize { m.value_deposit_max } else { m.value_deposit_min },
        PnlFactorKind::MaxAfterWithdrawal => if maximize { m.value_withdrawal_max } else { m.value_withdrawal_min },
        _ => None,
    }
}
impl WMarket {
    pub fn pool_value(&self, _prices: &Prices, kind: PnlFactorKind, maximize: bool) -> (r: Result<S, E>)
        ensures r.is_ok() == pool_value_read(*self, kind, maximize).is_some(), r.is_ok() ==> r.unwrap() == pool_value_read(*self, kind, maximize).unwrap()
    {
        let v = match kind {
            PnlFactorKind::MaxAfterDeposit => if maximize { self.value_deposit_max } else { self.value_deposit_min },
            PnlFactorKind::MaxAfterWithdrawal => if maximize { self.value_withdrawal_max } else { self.value_withdrawal_min },
            _ => None,
        };
        match v { Some(x) => Ok(x), None => Err(E::Other) }
    }
    pub fn total_supply(&self) -> (r: N) ensures r == self.supply { self.supply }
    pub fn liquidity_pool(&self) -> (r: Result<&LPool, E>)
        ensures r.is_ok() == self.pool.is_some(), r.is_ok() ==> *r.unwrap() == self.pool.unwrap()
    { match &self.pool { Some(x) => Ok(x), None => Err(E::Other) } }

//@unit C06.BaseMarketExt.pool_value_without_pnl_for_one_side
//@ file crates/model/src/market/base.rs
//@ within pub trait BaseMarketExt<const DECIMALS: u8>: BaseMarket<DECIMALS>
//@ fn pool_value_without_pnl_for_one_side
//@ sig fn pool_value_without_pnl_for_one_side( &self, prices: &Prices<Self::Num>, is_long: bool, maximize: bool, ) -> crate::Result<Self::Num>
    pub fn pool_value_without_pnl_for_one_side(&self, prices: &Prices, is_long: bool, maximize: bool) -> (r: Result<N, E>)
        ensures
            // the liquidity pool amount of THAT token at THAT token's price, the max price when maximising and the min price otherwise
            r.is_ok() ==> self.pool.is_some() && r.unwrap()@ == (if is_long { self.pool.unwrap().long@ } else { self.pool.unwrap().short@ })
                * (if is_long { if maximize { prices.long_token_price.max@ } else { prices.long_token_price.min@ } }
                   else { if maximize { prices.short_token_price.max@ } else { prices.short_token_price.min@ } }),
//@body
}

pub struct Withdrawal { pub market: WMarket, pub params: WithdrawParams }
/// USD value of the burnt market tokens: pool value (for withdrawals, minimised) x amount / supply, rounded down
pub open spec fn burnt_value(w: Withdrawal) -> int {
    mul_div_floor(pool_value_read(w.market, PnlFactorKind::MaxAfterWithdrawal, false).unwrap()@, w.params.market_token_amount@, w.market.supply@)
}
impl Withdrawal {
//@unit C06.Withdrawal.output_amounts
//@ file crates/model/src/action/withdraw.rs
//@ within impl<const DECIMALS: u8, M: LiquidityMarketMut<DECIMALS>> Withdrawal<M, DECIMALS>
//@ fn output_amounts
//@ sig fn output_amounts(&self) -> crate::Result<(M::Num, M::Num)>
//@ sub utils::market_token_amount_to_usd\( => market_token_amount_to_usd(
//@ top :: proof { if self.market.pool.is_some() && pool_value_read(self.market, PnlFactorKind::MaxAfterWithdrawal, false).is_some() && self.market.supply@ != 0 { let v = burnt_value(*self); let pl = self.params.prices.long_token_price; let ps = self.params.prices.short_token_price; let lp = self.market.pool.unwrap(); lemma_payout_all_compositions(v, lp.long@, lp.short@, pl.min@, pl.max@, ps.min@, ps.max@); } }
//@ sub assert\(!self\.params\.(long|short)_token_price\(\)\.has_zero\(\)\); => assert(self.params.prices.\1_token_price.min@ != 0 && self.params.prices.\1_token_price.max@ != 0);
//@ sub \.and_then\(\|a\| a\.checked_div\(self\.params\.(long|short)_token_price\(\)\.pick_price\(true\)\)\) => .and_then(|a: N| -> (o: Option<N>) ensures o.is_some() == (self.params.prices.\1_token_price.max@ != 0), o.is_some() ==> o.unwrap()@ == a@ / self.params.prices.\1_token_price.max@ { a.checked_div(self.params.\1_token_price().pick_price(true)) })
    fn output_amounts(&self) -> (r: Result<(N, N), E>)
        requires
            // the repository's two debug assertions (kept as proved assertions, R7): validated prices are non-zero
            self.params.prices.long_token_price.min@ != 0 && self.params.prices.long_token_price.max@ != 0,
            self.params.prices.short_token_price.min@ != 0 && self.params.prices.short_token_price.max@ != 0,
        ensures
            // the pool is valued for withdrawals, MINIMISED, and must be positive
            r.is_ok() ==> pool_value_read(self.market, PnlFactorKind::MaxAfterWithdrawal, false).is_some()
                && pool_value_read(self.market, PnlFactorKind::MaxAfterWithdrawal, false).unwrap()@ > 0 && self.market.supply@ != 0 && self.market.pool.is_some(),
            // what is paid out, valued at the MAX token prices, never exceeds the value of the burnt tokens (however the value is
            // split between the two tokens)
            r.is_ok() ==> r.unwrap().0@ * self.params.prices.long_token_price.max@ + r.unwrap().1@ * self.params.prices.short_token_price.max@ <= burnt_value(*self),
//@body
}


// ---- LiquidityMarketExt::pool_value ----------------------------------------------------------------------------------
pub struct BorrowingFeeParamsC { pub receiver_factor: N }
impl BorrowingFeeParamsC { pub fn receiver_factor(&self) -> (r: &N) ensures *r == self.receiver_factor { &self.receiver_factor } }
/// Carrier for `Self: LiquidityMarket` in pool_value: every read is a fallible table:
///   pool_value_without_pnl_for_one_side(prices, is_long, maximize), total_pending_borrowing_fees(prices, is_long) (C13),
///   borrowing_fee_params().receiver_factor, pnl(index price, is_long, maximize) (C11), pnl_factor_config(kind, is_long),
///   passed_in_seconds_for_position_impact_distribution(), pending_position_impact_pool_distribution_amount(duration).1 (C14)
pub struct PVMarket {
    pub side_value: Ghost<spec_fn(bool, bool) -> Option<N>>, pub pending_fees: Ghost<spec_fn(bool) -> Option<N>>, pub receiver_factor: Option<N>,
    pub pnl_tab: Ghost<spec_fn(bool, bool) -> Option<S>>, pub pnl_factor: Ghost<spec_fn(PnlFactorKind, bool) -> Option<N>>,
    pub passed: Option<u64>, pub impact_next: Ghost<spec_fn(u64) -> Option<N>>,
}

/// a positive pnl is capped at pool value x factor (MarketUtils::cap_pnl, under contract in C11)
pub open spec fn cap_spec(pnl: int, value: int, factor: int) -> int { if pnl > 0 { let m = mul_div_floor(value, factor, uunit()); if pnl > m { m } else { pnl } } else { pnl } }
impl PVMarket {
    #[verifier::external_body]
    pub fn pool_value_without_pnl_for_one_side(&self, prices: &Prices, is_long: bool, maximize: bool) -> (r: Result<N, E>)
        ensures r.is_ok() == (self.side_value@)(is_long, maximize).is_some(), r.is_ok() ==> r.unwrap() == (self.side_value@)(is_long, maximize).unwrap()
    { unimplemented!() }
    #[verifier::external_body]
    pub fn total_pending_borrowing_fees(&self, prices: &Prices, is_long: bool) -> (r: Result<N, E>)
        ensures r.is_ok() == (self.pending_fees@)(is_long).is_some(), r.is_ok() ==> r.unwrap() == (self.pending_fees@)(is_long).unwrap()
    { unimplemented!() }
    #[verifier::external_body]
    pub fn borrowing_fee_params(&self) -> (r: Result<BorrowingFeeParamsC, E>)
        ensures r.is_ok() == self.receiver_factor.is_some(), r.is_ok() ==> r.unwrap().receiver_factor == self.receiver_factor.unwrap()
    { unimplemented!() }
    #[verifier::external_body]
    pub fn pnl(&self, index_token_price: &Price, is_long: bool, maximize: bool) -> (r: Result<S, E>)
        ensures r.is_ok() == (self.pnl_tab@)(is_long, maximize).is_some(), r.is_ok() ==> r.unwrap() == (self.pnl_tab@)(is_long, maximize).unwrap()
    { unimplemented!() }
    #[verifier::external_body]
    pub fn pnl_factor_config(&self, kind: PnlFactorKind, is_long: bool) -> (r: Result<N, E>)
        ensures r.is_ok() == (self.pnl_factor@)(kind, is_long).is_some(), r.is_ok() ==> r.unwrap() == (self.pnl_factor@)(kind, is_long).unwrap()
    { unimplemented!() }
    #[verifier::external_body]
    pub fn passed_in_seconds_for_position_impact_distribution(&self) -> (r: Result<u64, E>)
        ensures r.is_ok() == self.passed.is_some(), r.is_ok() ==> r.unwrap() == self.passed.unwrap()
    { unimplemented!() }
    #[verifier::external_body]
    pub fn pending_position_impact_pool_distribution_amount(&self, duration: u64) -> (r: Result<(N, N), E>)
        ensures r.is_ok() == (self.impact_next@)(duration).is_some(), r.is_ok() ==> r.unwrap().1 == (self.impact_next@)(duration).unwrap()
    { unimplemented!() }

//@unit C06.MarketUtils.cap_pnl
//@ file crates/model/src/market/utils.rs
//@ within pub trait MarketUtils<const DECIMALS: u8>: BaseMarket<DECIMALS>
//@ fn cap_pnl
//@ sig fn cap_pnl( &self, is_long: bool, pnl: &Self::Signed, pool_value: &Self::Num, kind: PnlFactorKind, ) -> crate::Result<Self::Signed>
//@ sub crate::utils::apply_factor\( => apply_factor(
    pub fn cap_pnl(&self, is_long: bool, pnl: &S, pool_value: &N, kind: PnlFactorKind) -> (r: Result<S, E>)
        ensures
            pnl@ <= 0 ==> r.is_ok() && r.unwrap()@ == pnl@,
            r.is_ok() && pnl@ > 0 ==> (self.pnl_factor@)(kind, is_long).is_some() && r.unwrap()@ == cap_spec(pnl@, pool_value@, (self.pnl_factor@)(kind, is_long).unwrap()@),
//@body

//@unit C06.LiquidityMarketExt.pool_value
//@ file crates/model/src/market/liquidity.rs
//@ within pub trait LiquidityMarketExt<const DECIMALS: u8>: LiquidityMarket<DECIMALS>
//@ fn pool_value
//@ sig fn pool_value( &self, prices: &Prices<Self::Num>, pnl_factor: PnlFactorKind, maximize: bool, ) -> crate::Result<Self::Signed>
//@ sub <Self::Num>::UNIT => N::UNIT
//@ sub \.and_then\(\|factor\| crate::utils::apply_factor\(&total_borrowing_fees, &factor\)\) => .and_then(|factor: N| -> (o: Option<N>) ensures o == fit_u(mul_div_floor(total_borrowing_fees@, factor@, uunit())) { apply_factor(&total_borrowing_fees, &factor) })
    pub fn pool_value(&self, prices: &Prices, pnl_factor: PnlFactorKind, maximize: bool) -> (r: Result<S, E>)
        ensures
            r.is_ok() ==> pv_reads_ok(*self, maximize),
            // pool value = both sides' token value (valued with `maximize`)
            //            + the pool's share of the pending borrowing fees
            //            - the capped pnl of both sides, taken at the OPPOSITE extreme (`!maximize`) and capped with the given kind
            //            - the pending position impact pool, valued at the OPPOSITE index price (`!maximize`)
            r.is_ok() ==> r.unwrap()@ == pv_spec(*self, *prices, pnl_factor, maximize),
//@body
}
pub open spec fn pv_reads_ok(m: PVMarket, maximize: bool) -> bool {
    (m.side_value@)(true, maximize).is_some() && (m.side_value@)(false, maximize).is_some() && (m.pending_fees@)(true).is_some() && (m.pending_fees@)(false).is_some()
    && m.receiver_factor.is_some() && (m.pnl_tab@)(true, !maximize).is_some() && (m.pnl_tab@)(false, !maximize).is_some() && m.passed.is_some()
    && (m.impact_next@)(m.passed.unwrap()).is_some()
}
pub open spec fn capped_side_pnl(m: PVMarket, kind: PnlFactorKind, is_long: bool, maximize: bool) -> int {
    let pnl = (m.pnl_tab@)(is_long, !maximize).unwrap()@;
    if pnl > 0 { cap_spec(pnl, (m.side_value@)(is_long, maximize).unwrap()@, (m.pnl_factor@)(kind, is_long).unwrap()@) } else { pnl }
}
pub open spec fn pv_spec(m: PVMarket, prices: Prices, kind: PnlFactorKind, maximize: bool) -> int {
    (m.side_value@)(true, maximize).unwrap()@ + (m.side_value@)(false, maximize).unwrap()@
    + mul_div_floor((m.pending_fees@)(true).unwrap()@ + (m.pending_fees@)(false).unwrap()@, uunit() - m.receiver_factor.unwrap()@, uunit())
    - (capped_side_pnl(m, kind, true, maximize) + capped_side_pnl(m, kind, false, maximize))
    - (m.impact_next@)(m.passed.unwrap()).unwrap()@ * (if !maximize { prices.index_token_price.max@ } else { prices.index_token_price.min@ })
}

// ---- the statement over the conversion contracts ---------------------------------------------------------------------
/// what a withdrawal pays out, valued at the max prices it was computed with, never exceeds the value of the burnt tokens
pub proof fn lemma_payout_le_burnt_value(v: int, lv: int, sv: int, pl: int, ps: int)
    requires v >= 0, lv >= 0, sv >= 0, lv + sv > 0, pl > 0, ps > 0
    ensures (mul_div_floor(v, lv, lv + sv) / pl) * pl + (mul_div_floor(v, sv, lv + sv) / ps) * ps <= v
{
    let t = lv + sv;
    lemma_mul_nonnegative(v, lv); lemma_mul_nonnegative(v, sv);
    let a = (v * lv) / t; let b = (v * sv) / t;
    lemma_div_pos_is_pos(v * lv, t); lemma_div_pos_is_pos(v * sv, t);
    lemma_fundamental_div_mod(a, pl); lemma_mod_bound(a, pl); lemma_mul_is_commutative(pl, a / pl);
    lemma_fundamental_div_mod(b, ps); lemma_mod_bound(b, ps); lemma_mul_is_commutative(ps, b / ps);
    // a + b <= v
    lemma_floor_superadditive6(v * lv, v * sv, t);
    lemma_mul_is_distributive_add(v, lv, sv);
    lemma_div_multiples_vanish(v, t);
    lemma_mul_is_commutative(v, t);
}
/// the bound for every way of weighting the two sides with their min or max prices (keeps the proof independent of which
/// price the composition is taken at)
pub proof fn lemma_payout_all_compositions(v: int, la: int, sa: int, plmin: int, plmax: int, psmin: int, psmax: int)
    requires la >= 0, sa >= 0, plmin > 0, plmax > 0, psmin > 0, psmax > 0
    ensures
        v >= 0 ==> forall|pl: int, ps: int| #![trigger la * pl, sa * ps] (pl == plmin || pl == plmax) && (ps == psmin || ps == psmax) && la * pl + sa * ps > 0 ==>
            (mul_div_floor(v, la * pl, la * pl + sa * ps) / plmax) * plmax + (mul_div_floor(v, sa * ps, la * pl + sa * ps) / psmax) * psmax <= v
{
    if v >= 0 {
        assert forall|pl: int, ps: int| #![trigger la * pl, sa * ps] (pl == plmin || pl == plmax) && (ps == psmin || ps == psmax) && la * pl + sa * ps > 0 implies
            (mul_div_floor(v, la * pl, la * pl + sa * ps) / plmax) * plmax + (mul_div_floor(v, sa * ps, la * pl + sa * ps) / psmax) * psmax <= v by {
            lemma_mul_nonnegative(la, pl); lemma_mul_nonnegative(sa, ps);
            lemma_payout_le_burnt_value(v, la * pl, sa * ps, plmax, psmax);
        }
    }
}
pub proof fn lemma_floor_superadditive6(p: int, q: int, d: int)
    requires p >= 0, q >= 0, d > 0
    ensures p / d + q / d <= (p + q) / d
{
    lemma_fundamental_div_mod(p, d); lemma_fundamental_div_mod(q, d); lemma_mod_bound(p, d); lemma_mod_bound(q, d);
    let k = p / d + q / d;
    lemma_mul_is_distributive_add(d, p / d, q / d);
    lemma_div_is_ordered(d * k, p + q, d);
    lemma_div_multiples_vanish(k, d);
}

/// "The first deposit into an empty pool is priced at one USD per market token": zero supply and zero pool value mint
/// usd / divisor tokens (the C01 contract of usd_to_market_token_amount, restated)
pub proof fn lemma_first_deposit(usd: int, divisor: int)
    requires usd >= 0, divisor > 0
    ensures usd / divisor <= usd, (usd / divisor) * divisor <= usd
{
    lemma_div_pos_bound(usd, divisor);
    lemma_fundamental_div_mod(usd, divisor); lemma_mod_bound(usd, divisor); lemma_mul_is_commutative(divisor, usd / divisor);
}

/// Round trip. Before: supply s > 0, pool value for deposits v1 > 0. The LP deposits usd value u and is minted
/// m = floor(s u / v1). With no other activity and unchanged prices the pool value for the withdrawal, w2, is at most v1 + u
/// (deposits are valued at the maximised pool value and the minimum token price, withdrawals at the minimised pool value).
/// Burning all m tokens is then worth floor(w2 m / (s + m)) <= u.
pub proof fn lemma_round_trip(s: int, v1: int, u: int, w2: int)
    requires s > 0, v1 > 0, u >= 0, 0 <= w2 <= v1 + u
    ensures ({ let m = mul_div_floor(s, u, v1); mul_div_floor(w2, m, s + m) <= u })
{
    let m = (s * u) / v1;
    lemma_mul_nonnegative(s, u);
    lemma_div_pos_is_pos(s * u, v1);
    lemma_fundamental_div_mod(s * u, v1); lemma_mod_bound(s * u, v1);
    // v1 m <= s u   ==>   (v1 + u) m <= u (s + m)
    lemma_mul_is_commutative(v1, m);
    lemma_mul_is_distributive_add_other_way(m, v1, u);
    lemma_mul_is_distributive_add(u, s, m);
    lemma_mul_is_commutative(u, s); lemma_mul_is_commutative(u, m);
    assert((v1 + u) * m <= u * (s + m));
    lemma_mul_inequality(w2, v1 + u, m);
    lemma_mul_nonnegative(w2, m);
    lemma_div_is_ordered(w2 * m, u * (s + m), s + m);
    lemma_div_multiples_vanish(u, s + m);
    lemma_mul_is_commutative(u, s + m);
}
/// Deposit leg, no dilution: after minting m = floor(s u / v1) tokens for usd value u, the value per token of the others does
/// not fall: (v1 + u) / (s + m) >= v1 / s, i.e. (v1 + u) s >= v1 (s + m)
pub proof fn lemma_deposit_no_dilution(s: int, v1: int, u: int)
    requires s > 0, v1 > 0, u >= 0
    ensures ({ let m = mul_div_floor(s, u, v1); (v1 + u) * s >= v1 * (s + m) })
{
    let m = (s * u) / v1;
    lemma_mul_nonnegative(s, u);
    lemma_fundamental_div_mod(s * u, v1); lemma_mod_bound(s * u, v1);
    lemma_mul_is_distributive_add_other_way(s, v1, u);
    lemma_mul_is_distributive_add(v1, s, m);
    lemma_mul_is_commutative(u, s); lemma_mul_is_commutative(v1, s);
}
/// Withdrawal leg, no dilution: burning m <= s tokens for out = floor(v m / s) leaves (v - out) / (s - m) >= v / s,
/// i.e. (v - out) s >= v (s - m)
pub proof fn lemma_withdrawal_no_dilution(s: int, v: int, m: int)
    requires s > 0, v >= 0, 0 <= m <= s
    ensures ({ let out = mul_div_floor(v, m, s); (v - out) * s >= v * (s - m) && 0 <= out <= v })
{
    let out = (v * m) / s;
    lemma_mul_nonnegative(v, m);
    lemma_div_pos_is_pos(v * m, s);
    lemma_fundamental_div_mod(v * m, s); lemma_mod_bound(v * m, s);
    lemma_mul_is_distributive_sub_other_way(s, v, out);
    lemma_mul_is_distributive_sub(v, s, m);
    lemma_mul_is_commutative(out, s);
    lemma_mul_inequality(m, s, v); lemma_mul_is_commutative(m, v); lemma_mul_is_commutative(s, v);
    lemma_div_is_ordered(v * m, v * s, s);
    lemma_div_multiples_vanish(v, s);
}
} // verus!
