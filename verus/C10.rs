//@include C11.rs
// =================================================================================================
// C10  Opening and immediately closing a position is never profitable   (partial: the rounding of the two size conversions and
//      the two caps; the pnl side is the C11 contract of pnl_value, included and re-verified here)
//      crates/model/src/action/increase_position.rs :: IncreasePosition::get_execution_params, get_execution_price_for_increase
//      crates/model/src/market/perp.rs              :: PerpMarketExt::{cap_positive_position_price_impact, cap_negative_position_price_impact}
//      Lemma (from the statement): the tokens credited at open, valued at the close price of the same prices, minus the size in usd
//      (= the pnl of an immediate full close, C11) never exceed the price impact value credited at open.
// =================================================================================================
verus! {
// ---- the statement's vocabulary --------------------------------------------------------------------------------
/// price impact of an increase expressed in index tokens: a positive impact at the MAX price rounded down, a negative one at the
/// MIN price with the magnitude rounded up
pub open spec fn impact_amount_spec(v: int, pmin: int, pmax: int) -> int { if v > 0 { v / pmax } else { -div_ceil(-v, pmin) } }
/// tokens credited for an increase of `usd` with impact `v`: longs buy at the MAX price rounded down, shorts sell at the MIN price
/// rounded up; a long gains the impact amount, a short's token debt shrinks by it
pub open spec fn open_tokens_spec(is_long: bool, usd: int, v: int, pmin: int, pmax: int) -> int {
    if is_long { usd / pmax + impact_amount_spec(v, pmin, pmax) } else { div_ceil(usd, pmin) - impact_amount_spec(v, pmin, pmax) }
}

pub proof fn lemma_floor_mul_le(a: int, d: int) requires a >= 0, d > 0 ensures (a / d) * d <= a, a / d >= 0 {
    lemma_fundamental_div_mod(a, d); lemma_mod_bound(a, d); lemma_mul_is_commutative(d, a / d); lemma_div_pos_is_pos(a, d);
}
pub proof fn lemma_ceil_mul_ge(a: int, d: int) requires a >= 0, d > 0 ensures div_ceil(a, d) * d >= a, div_ceil(a, d) >= 0 {
    lemma_fundamental_div_mod(a + d - 1, d); lemma_mod_bound(a + d - 1, d); lemma_mul_is_commutative(d, (a + d - 1) / d);
    lemma_div_pos_is_pos(a + d - 1, d);
}
pub proof fn lemma_div_ceil_zero(d: int) requires d > 0 ensures div_ceil(0, d) == 0 { lemma_basic_div(d - 1, d); }
/// OPEN THEN CLOSE: the total pnl of the freshly opened position at the close price of the SAME prices is at most the impact value
pub proof fn lemma_open_close_pnl_le_impact(is_long: bool, usd: int, v: int, pmin: int, pmax: int)
    requires usd >= 0, 0 < pmin <= pmax, open_tokens_spec(is_long, usd, v, pmin, pmax) >= 0
    ensures total_pnl(is_long, open_tokens_spec(is_long, usd, v, pmin, pmax), usd, if is_long { pmin } else { pmax }) <= v
{
    let t = open_tokens_spec(is_long, usd, v, pmin, pmax);
    let ia = impact_amount_spec(v, pmin, pmax);
    if is_long {
        let b = usd / pmax;
        lemma_floor_mul_le(usd, pmax);
        assert(t * pmin <= t * pmax) by(nonlinear_arith) requires t >= 0, pmin <= pmax;
        if v > 0 {
            lemma_floor_mul_le(v, pmax);
            assert(t * pmax == b * pmax + (v / pmax) * pmax) by(nonlinear_arith) requires t == b + v / pmax;
        } else {
            lemma_ceil_mul_ge(-v, pmin);
            let c = div_ceil(-v, pmin);
            assert(t * pmin == b * pmin - c * pmin) by(nonlinear_arith) requires t == b - c;
            assert(b * pmin <= b * pmax) by(nonlinear_arith) requires b >= 0, pmin <= pmax;
        }
    } else {
        let b = div_ceil(usd, pmin);
        lemma_ceil_mul_ge(usd, pmin);
        assert(t * pmax >= t * pmin) by(nonlinear_arith) requires t >= 0, pmin <= pmax;
        if v > 0 {
            lemma_floor_mul_le(v, pmax);
            let f = v / pmax;
            assert(t * pmax == b * pmax - f * pmax) by(nonlinear_arith) requires t == b - f;
            assert(b * pmax >= b * pmin) by(nonlinear_arith) requires b >= 0, pmin <= pmax;
        } else {
            lemma_ceil_mul_ge(-v, pmin);
            let c = div_ceil(-v, pmin);
            assert(t * pmin == b * pmin + c * pmin) by(nonlinear_arith) requires t == b + c;
        }
    }
}
/// ... and so is what an immediate FULL close credits (C11: the credited pnl never exceeds the uncapped one; a full close realises
/// the whole total pnl)
pub proof fn lemma_immediate_full_close(is_long: bool, usd: int, v: int, pmin: int, pmax: int, pool_pnl: int, capped_pool_pnl: int)
    requires usd >= 0, 0 < pmin <= pmax, open_tokens_spec(is_long, usd, v, pmin, pmax) > 0, capped_pool_pnl <= pool_pnl
    ensures ({
        let t = open_tokens_spec(is_long, usd, v, pmin, pmax);
        let total = total_pnl(is_long, t, usd, if is_long { pmin } else { pmax });
        // sdt_spec of a full close is all the tokens; the credited share of the capped total
        trunc_mul_div(sdt_spec(is_long, t, usd, usd), capped_total(total, pool_pnl, capped_pool_pnl), t) <= v
    })
{
    let t = open_tokens_spec(is_long, usd, v, pmin, pmax);
    let total = total_pnl(is_long, t, usd, if is_long { pmin } else { pmax });
    lemma_open_close_pnl_le_impact(is_long, usd, v, pmin, pmax);
    lemma_credited_le_uncapped(total, pool_pnl, capped_pool_pnl, t, t);
    // trunc(t * total / t) == total
    if total >= 0 { lemma_mul_is_commutative(t, total); lemma_div_multiples_vanish(total, t); }
    else { lemma_mul_is_commutative(t, -total); lemma_div_multiples_vanish(-total, t); }
}

// ---- carriers ----------------------------------------------------------------------------------------------------------
//@struct crates/model/src/pool/delta.rs :: pub enum BalanceChange ::
#[derive(Clone, Copy)]
pub enum BalanceChange { Improved, Worsened, Unchanged }
//@struct crates/model/src/pool/delta.rs :: pub struct PriceImpact<T> :: value, balance_change
pub struct PriceImpact { pub value: S, pub balance_change: BalanceChange }
//@struct crates/model/src/action/increase_position.rs :: pub struct IncreasePositionParams<T> :: collateral_increment_amount, size_delta_usd, acceptable_price, prices
pub struct IncreasePositionParams { pub collateral_increment_amount: N, pub size_delta_usd: N, pub acceptable_price: Option<N>, pub prices: Prices }
//@struct crates/model/src/action/increase_position.rs :: pub struct ExecutionParams<Unsigned, Signed> :: price_impact_value, price_impact_amount, size_delta_in_tokens, execution_price
pub struct ExecutionParams { pub price_impact_value: S, pub price_impact_amount: S, pub size_delta_in_tokens: N, pub execution_price: N }
pub struct ExecutionParamsWithPriceImpact { pub execution: ExecutionParams, pub price_impact: PriceImpact }
/// the (capped) price impact of the increase: a deterministic read of the position and its market (its value: C03, its caps: below)
pub uninterp spec fn open_impact_of(p: Pos, index_price: Price, size_delta_usd: int) -> int;
impl Pos {
    #[verifier::external_body]
    pub fn capped_positive_position_price_impact(&self, index_token_price: &Price, size_delta_usd: &S, include_virtual_inventory_impact: bool) -> (r: Result<PriceImpact, E>)
        ensures r.is_ok() ==> r.unwrap().value@ == open_impact_of(*self, *index_token_price, size_delta_usd@)
    { unimplemented!() }
}

//@unit C10.get_execution_price_for_increase
//@ file crates/model/src/action/increase_position.rs
//@ fn get_execution_price_for_increase
//@ sig fn get_execution_price_for_increase<T>( size_delta_usd: &T, size_delta_in_tokens: &T, acceptable_price: Option<&T>, is_long: bool, ) -> crate::Result<T>
fn get_execution_price_for_increase(size_delta_usd: &N, size_delta_in_tokens: &N, acceptable_price: Option<&N>, is_long: bool) -> (r: Result<N, E>)
    ensures
        // the execution price is usd / tokens (rounded down) and respects the acceptable price
        r.is_ok() ==> size_delta_usd@ != 0 && size_delta_in_tokens@ != 0 && r.unwrap()@ == size_delta_usd@ / size_delta_in_tokens@
            && (match acceptable_price { Some(a) => if is_long { r.unwrap()@ <= a@ } else { r.unwrap()@ >= a@ }, None => true }),
//@body

pub struct IncreasePosition { pub position: Pos, pub params: IncreasePositionParams }
impl IncreasePosition {
    fn default_price_impact() -> (r: PriceImpact) { PriceImpact { value: S(0), balance_change: BalanceChange::Unchanged } }

//@unit C10.IncreasePosition.get_execution_params
//@ file crates/model/src/action/increase_position.rs
//@ within impl<const DECIMALS: u8, P: PositionMut<DECIMALS>> IncreasePosition<P, DECIMALS>
//@ fn get_execution_params
//@ sig fn get_execution_params(&self) -> crate::Result<ExecutionParamsWithPriceImpact<P::Num>>
//@ sub price_impact: Default::default\(\), => price_impact: Self::default_price_impact(),
//@ sub let price: P::Signed = => let price: S =
//@ before let mut size_delta_in_tokens = if self.position.is_long() { :: proof { lemma_div_ceil_zero(self.params.prices.index_token_price.min@); }
//@ sub assert\(\s*!price\.is_zero\(\)\s*\); => assert(price@ != 0);
    fn get_execution_params(&self) -> (r: Result<ExecutionParamsWithPriceImpact, E>)
        requires self.params.prices.index_token_price.min@ > 0, self.params.prices.index_token_price.min@ <= self.params.prices.index_token_price.max@,
        ensures
            r.is_ok() && self.params.size_delta_usd@ == 0 ==> r.unwrap().execution.size_delta_in_tokens@ == 0 && r.unwrap().execution.price_impact_value@ == 0,
            // the tokens credited are exactly the rounded-against-the-trader conversion of the size and of the (capped) impact
            r.is_ok() && self.params.size_delta_usd@ != 0 ==> ({
                let p = self.params.prices.index_token_price; let v = open_impact_of(self.position, p, self.params.size_delta_usd@);
                &&& r.unwrap().execution.price_impact_value@ == v && r.unwrap().price_impact.value@ == v
                &&& r.unwrap().execution.price_impact_amount@ == impact_amount_spec(v, p.min@, p.max@)
                &&& r.unwrap().execution.size_delta_in_tokens@ == open_tokens_spec(self.position.long, self.params.size_delta_usd@, v, p.min@, p.max@)
            }),
//@body
}

// ---- the two caps -------------------------------------------------------------------------------------------------------
//@struct crates/model/src/params/position.rs :: pub struct PositionParams<T> :: min_position_size_usd, min_collateral_value, min_collateral_factor, min_collateral_factor_for_liquidation, max_positive_position_impact_factor, max_negative_position_impact_factor, max_position_impact_factor_for_liquidations
pub struct PositionParams { pub max_positive_position_impact_factor: N, pub max_negative_position_impact_factor: N, pub max_position_impact_factor_for_liquidations: N }
impl PositionParams {
    pub fn max_positive_position_impact_factor(&self) -> (r: &N) ensures *r == self.max_positive_position_impact_factor { &self.max_positive_position_impact_factor }
    pub fn max_negative_position_impact_factor(&self) -> (r: &N) ensures *r == self.max_negative_position_impact_factor { &self.max_negative_position_impact_factor }
    pub fn max_position_impact_factor_for_liquidations(&self) -> (r: &N) ensures *r == self.max_position_impact_factor_for_liquidations { &self.max_position_impact_factor_for_liquidations }
}
/// carrier for `Self: PerpMarket` as the caps read it
pub struct ImpactMarket { pub impact_pool_amount: Option<N>, pub params: Option<PositionParams> }
impl ImpactMarket {
    pub fn position_impact_pool_amount(&self) -> (r: Result<N, E>) ensures r.is_ok() == self.impact_pool_amount.is_some(), r.is_ok() ==> r.unwrap() == self.impact_pool_amount.unwrap()
    { match self.impact_pool_amount { Some(x) => Ok(x), None => Err(E::Other) } }
    #[verifier::external_body]
    pub fn position_params(&self) -> (r: Result<PositionParams, E>) ensures r.is_ok() == self.params.is_some(), r.is_ok() ==> r.unwrap() == self.params.unwrap() { unimplemented!() }

//@unit C10.PerpMarketExt.cap_positive_position_price_impact
//@ file crates/model/src/market/perp.rs
//@ within pub trait PerpMarketExt<const DECIMALS: u8>: PerpMarket<DECIMALS>
//@ fn cap_positive_position_price_impact
//@ sig fn cap_positive_position_price_impact( &self, index_token_price: &Price<Self::Num>, size_delta_usd: &Self::Signed, impact: &mut Self::Signed, ) -> crate::Result<()>
//@ sub use crate::\{market::PositionImpactMarketExt, num::UnsignedAbs, utils\}; =>
//@ sub use num_traits::\{CheckedMul, Signed\}; =>
//@ sub utils::apply_factor\( => apply_factor(
    pub fn cap_positive_position_price_impact(&self, index_token_price: &Price, size_delta_usd: &S, impact: &mut S) -> (r: Result<(), E>)
        ensures
            // a negative impact is left alone; a positive one is capped by what the impact pool holds (valued at the MIN index price)
            // and by size x the max positive impact factor
            r.is_ok() && old(impact)@ < 0 ==> final(impact)@ == old(impact)@,
            r.is_ok() && old(impact)@ >= 0 ==> self.impact_pool_amount.is_some() && self.params.is_some()
                && final(impact)@ <= old(impact)@ && final(impact)@ >= 0
                && final(impact)@ <= self.impact_pool_amount.unwrap()@ * index_token_price.min@
                && final(impact)@ <= mul_div_floor(abs(size_delta_usd@), self.params.unwrap().max_positive_position_impact_factor@, uunit())
                && (final(impact)@ == old(impact)@ || final(impact)@ == self.impact_pool_amount.unwrap()@ * index_token_price.min@
                    || final(impact)@ == mul_div_floor(abs(size_delta_usd@), self.params.unwrap().max_positive_position_impact_factor@, uunit())),
//@body

//@unit C10.PerpMarketExt.cap_negative_position_price_impact
//@ file crates/model/src/market/perp.rs
//@ within pub trait PerpMarketExt<const DECIMALS: u8>: PerpMarket<DECIMALS>
//@ fn cap_negative_position_price_impact
//@ sig fn cap_negative_position_price_impact( &self, size_delta_usd: &Self::Signed, for_liquidations: bool, impact: &mut Self::Signed, ) -> crate::Result<Self::Num>
//@ sub use crate::\{num::UnsignedAbs, utils\}; =>
//@ sub use num_traits::\{CheckedSub, Signed, Zero\}; =>
//@ sub utils::apply_factor\( => apply_factor(
    pub fn cap_negative_position_price_impact(&self, size_delta_usd: &S, for_liquidations: bool, impact: &mut S) -> (r: Result<N, E>)
        ensures
            // a non-negative impact is left alone; a negative one is capped at -(size x the max negative factor), and what was cut off
            // is returned (it is charged later as the price impact diff)
            r.is_ok() && old(impact)@ >= 0 ==> final(impact)@ == old(impact)@ && r.unwrap()@ == 0,
            r.is_ok() && old(impact)@ < 0 ==> self.params.is_some() && ({
                let f = if for_liquidations { self.params.unwrap().max_position_impact_factor_for_liquidations@ } else { self.params.unwrap().max_negative_position_impact_factor@ };
                let floor_v = -mul_div_floor(abs(size_delta_usd@), f, uunit());
                &&& final(impact)@ == (if old(impact)@ < floor_v { floor_v } else { old(impact)@ })
                &&& r.unwrap()@ == final(impact)@ - old(impact)@
            }),
//@body
}
} // verus!
