//@include inc/model_base_u128.rs
//@include inc/glue_u128.rs
// =================================================================================================
// C32  Builder fees are bounded by what the order actually produced (pure helpers of ops/order.rs
//      and Order::record_builder_fee; private free functions, extracted by text: no hook needed)
// =================================================================================================
//@const programs/store/src/constants/mod.rs :: MARKET_USD_UNIT :: u128 = 10u128.pow(MARKET_DECIMALS as u32)
//@const programs/store/src/constants/mod.rs :: MARKET_DECIMALS :: u8 = Decimal::MAX_DECIMALS
//@const crates/utils/src/price/decimal.rs :: MAX_DECIMALS :: u8 = 20
verus! {


/// the statement: size x factor, converted at the MIN price, rounded UP
pub open spec fn builder_fee_spec(size: int, factor: int, min_price: int) -> int {
    div_ceil(mul_div_floor(size, factor, uunit()), min_price)
}

//@struct crates/model/src/action/decrease_position/mod.rs :: pub enum DecreasePositionSwapType ::
#[derive(Clone, Copy, Eq)]
pub enum DecreasePositionSwapType { NoSwap, PnlTokenToCollateralToken, CollateralToPnlToken }
// stands for the `#[derive(PartialEq)]` on the fieldless enum (structural equality)
impl PartialEqSpecImpl for DecreasePositionSwapType {
    open spec fn obeys_eq_spec() -> bool { true }
    open spec fn eq_spec(&self, other: &DecreasePositionSwapType) -> bool { *self == *other }
}
impl PartialEq for DecreasePositionSwapType {
    fn eq(&self, other: &DecreasePositionSwapType) -> (r: bool) {
        match (self, other) {
            (DecreasePositionSwapType::NoSwap, DecreasePositionSwapType::NoSwap) => true,
            (DecreasePositionSwapType::PnlTokenToCollateralToken, DecreasePositionSwapType::PnlTokenToCollateralToken) => true,
            (DecreasePositionSwapType::CollateralToPnlToken, DecreasePositionSwapType::CollateralToPnlToken) => true,
            _ => false,
        }
    }
}

//@unit C32.compute_builder_fee_amount
//@ file programs/store/src/ops/order.rs
//@ fn compute_builder_fee_amount
//@ sig fn compute_builder_fee_amount( size_delta_usd: u128, factor: u128, price: &Price<u128>, ) -> Result<u128>
//@ top :: proof { if price.min != 0 { lemma_mul_nonnegative(size_delta_usd as int, factor as int); lemma_div_pos_bound(size_delta_usd as int * factor as int, uunit()); lemma_ceil_covers(mul_div_floor(size_delta_usd as int, factor as int, uunit()), price.min as int); } }
pub fn compute_builder_fee_amount(size_delta_usd: u128, factor: u128, price: &PriceP) -> (r: Result<u128, E>)
    ensures
        // zero factor: zero fee, whatever the price (even a zero/meaningless one)
        factor == 0 ==> r == Ok::<u128, E>(0u128),
        factor != 0 && r.is_ok() ==> r.unwrap() == builder_fee_spec(size_delta_usd as int, factor as int, price.min as int),
        factor != 0 && price.min == 0 ==> r.is_err(),
        // never under-collected: fee * min_price >= fee value
        factor != 0 && r.is_ok() ==> r.unwrap() * price.min >= mul_div_floor(size_delta_usd as int, factor as int, uunit()),
//@body

//@unit C32.clamp_builder_fee_amount
//@ file programs/store/src/ops/order.rs
//@ fn clamp_builder_fee_amount
//@ sig fn clamp_builder_fee_amount(fee_amount: u128, available: u128) -> u128
pub fn clamp_builder_fee_amount(fee_amount: u128, available: u128) -> (r: u128)
    ensures r <= available, r <= fee_amount, r == fee_amount || r == available,
//@body

//@unit C32.charge_builder_fee_on_collateral_increment
//@ file programs/store/src/ops/order.rs
//@ fn charge_builder_fee_on_collateral_increment
//@ sig fn charge_builder_fee_on_collateral_increment( collateral_increment_amount: u64, size_delta_usd: u128, builder_fee_factor: u128, collateral_price: &Price<u128>, ) -> Result<(u64, u64)>
//@ sub u64::try_from\(payable_amount\)\.map_err\(\|_e\| E::Other\) => (match u64::try_from(payable_amount) { Ok(v) => Ok::<u64, E>(v), Err(_) => Err(E::Other) })
pub fn charge_builder_fee_on_collateral_increment(collateral_increment_amount: u64, size_delta_usd: u128, builder_fee_factor: u128, collateral_price: &PriceP) -> (r: Result<(u64, u64), E>)
    ensures
        // fee + remaining increment == original increment, or the order fails
        r.is_ok() ==> r.unwrap().0 + r.unwrap().1 == collateral_increment_amount,
        r.is_ok() && builder_fee_factor != 0 ==> r.unwrap().1 == builder_fee_spec(size_delta_usd as int, builder_fee_factor as int, collateral_price.min as int),
        r.is_ok() && builder_fee_factor == 0 ==> r.unwrap().1 == 0 && r.unwrap().0 == collateral_increment_amount,
        // underpayment is an error, not a clamp
        (builder_fee_factor != 0 && collateral_price.min != 0
            && builder_fee_spec(size_delta_usd as int, builder_fee_factor as int, collateral_price.min as int) > collateral_increment_amount) ==> r.is_err(),
//@body

//@unit C32.estimate_builder_fee_for_collateral_withdrawal
//@ file programs/store/src/ops/order.rs
//@ fn estimate_builder_fee_for_collateral_withdrawal
//@ sig fn estimate_builder_fee_for_collateral_withdrawal( collateral_withdrawal_amount: u128, size_delta_usd: u128, builder_fee_factor: u128, collateral_price: &Price<u128>, decrease_position_swap_type: DecreasePositionSwapType, ) -> Result<u128>
pub fn estimate_builder_fee_for_collateral_withdrawal(collateral_withdrawal_amount: u128, size_delta_usd: u128, builder_fee_factor: u128, collateral_price: &PriceP, decrease_position_swap_type: DecreasePositionSwapType) -> (r: Result<u128, E>)
    ensures
        builder_fee_factor == 0 ==> r == Ok::<u128, E>(collateral_withdrawal_amount),
        // the swap type that would let the fee be bypassed is rejected for ANY non-zero factor
        builder_fee_factor != 0 && decrease_position_swap_type == DecreasePositionSwapType::CollateralToPnlToken ==> r.is_err(),
        builder_fee_factor != 0 && r.is_ok() ==> r.unwrap() == collateral_withdrawal_amount + builder_fee_spec(size_delta_usd as int, builder_fee_factor as int, collateral_price.min as int),
//@body

// ---- Order::record_builder_fee (carrier: the one field it touches) ---------------------------------
pub struct Order { pub builder_fee_amount: u64 }
impl Order {
//@unit C32.Order.record_builder_fee
//@ file programs/store/src/states/order.rs
//@ within impl Order
//@ fn record_builder_fee
//@ sig fn record_builder_fee(&mut self, amount: u64) -> Result<()>
    pub fn record_builder_fee(&mut self, amount: u64) -> (r: Result<(), E>)
        ensures
            r.is_ok() <==> old(self).builder_fee_amount + amount <= u64::MAX,
            r.is_ok() ==> final(self).builder_fee_amount == old(self).builder_fee_amount + amount,
            r.is_err() ==> final(self).builder_fee_amount == old(self).builder_fee_amount,
//@body
}

/// rounding up never under-collects:  ceil(v / p) * p >= v
pub proof fn lemma_ceil_covers(v: int, p: int)
    requires v >= 0, p > 0
    ensures div_ceil(v, p) * p >= v
{
    lemma_fundamental_div_mod(v + p - 1, p);
    lemma_mod_bound(v + p - 1, p);
    lemma_mul_is_commutative(div_ceil(v, p), p);
}
} // verus!
