//@prelude u128
// =================================================================================================
// C44  Multi-market swaps follow the declared path and move recorded balances   (partial)
//      programs/store/src/states/common/swap.rs                        :: validate_path   (path validation at action creation)
//      programs/store/src/states/market/revertible/swap_market.rs      :: SwapMarkets::swap_along_the_path   (execution)
//      Accounts are plain values (AccountLoader::try_from / load are projections); HashSet / BTreeSet are set carriers; the swap
//      of one market (C04 / C05) and the balance records of one market (C22) are assumed calls with ghost logs.
// =================================================================================================
verus! {
#[derive(Clone, Copy)]
pub struct Pubkey { pub hi: u128, pub lo: u128 }
pub fn keys_equal(a: &Pubkey, b: &Pubkey) -> (r: bool) ensures r == (*a == *b) { a.hi == b.hi && a.lo == b.lo }

//@struct crates/utils/src/market.rs :: pub struct MarketMeta :: market_token_mint, index_token_mint, long_token_mint, short_token_mint
#[derive(Clone, Copy)]
pub struct MarketMeta { pub market_token_mint: Pubkey, pub index_token_mint: Pubkey, pub long_token_mint: Pubkey, pub short_token_mint: Pubkey }
/// the token a swap step of this market turns `t` into (None: `t` is not one of its two pool tokens, or the step is a no-op)
pub open spec fn step_of(m: MarketMeta, t: Pubkey) -> Option<Pubkey> {
    if m.long_token_mint == m.short_token_mint { None } else if t == m.long_token_mint { Some(m.short_token_mint) } else if t == m.short_token_mint { Some(m.long_token_mint) } else { None }
}
/// the token after the first `n` steps of the path, starting from `t`
pub open spec fn walk(metas: Seq<MarketMeta>, t: Pubkey, n: int) -> Option<Pubkey> decreases n {
    if n <= 0 { Some(t) } else { match walk(metas, t, n - 1) { Some(c) => step_of(metas[n - 1], c), None => None } }
}

// ---- validate_path --------------------------------------------------------------------------------------------------------
/// one market account of the path: its address and its meta (if it passes `validated_meta(store)`)
pub struct MarketAcc { pub key: Pubkey, pub meta: Option<MarketMeta> }
impl MarketAcc {
    pub fn key(&self) -> (r: Pubkey) ensures r == self.key { self.key }
    /// `market.load()?.validated_meta(store)?` (owned by the store, enabled): fallible, otherwise the stored meta
    pub fn validated_meta(&self, store: &Pubkey) -> (r: Result<&MarketMeta, E>) ensures r.is_ok() == self.meta.is_some(), r.is_ok() ==> *r.unwrap() == self.meta.unwrap()
    { match &self.meta { Some(m) => Ok(m), None => Err(E::Other) } }
}
/// `HashSet<Pubkey>` / `BTreeSet<Pubkey>`: set carriers (insert returns whether the key was new)
#[verifier::external_body] pub struct KeySet { _p: u8 }
impl KeySet {
    pub uninterp spec fn has(&self, k: Pubkey) -> bool;
    #[verifier::external_body] pub fn new() -> (r: KeySet) ensures forall|k: Pubkey| !r.has(k) { unimplemented!() }
    #[verifier::external_body] pub fn insert(&mut self, k: Pubkey) -> (r: bool)
        ensures r == !old(self).has(k), final(self).has(k), forall|x: Pubkey| x != k ==> final(self).has(x) == old(self).has(x) { unimplemented!() }
}

//@unit C44.validate_path
//@ file programs/store/src/states/common/swap.rs
//@ fn validate_path
//@ sig fn validate_path<'info>( tokens: &mut BTreeSet<Pubkey>, path: &'info [AccountInfo<'info>], store: &Pubkey, token_in: &Pubkey, token_out: &Pubkey, ) -> Result<Vec<Pubkey>>
//@ sub let mut seen = HashSet::<_>::default\(\); => let mut seen = KeySet::new();
//@ sub for market in unpack_markets\(path\) \{ => let mut _i: usize = 0; while _i < path.len() { let market = &path[_i]; _i += 1;
//@ sub let market = market\?; =>
//@ sub let market = market\.load\(\)\?; =>
//@ subopt (?s)if !\(\(meta\.long_token_mint\) != \(meta\.short_token_mint\)\) => if keys_equal(&meta.long_token_mint, &meta.short_token_mint)
//@ sub if current == meta\.long_token_mint \{ => if keys_equal(&current, &meta.long_token_mint) {
//@ sub \} else if current == meta\.short_token_mint \{ => } else if keys_equal(&current, &meta.short_token_mint) {
//@ subopt (?s)if !\(\(current\) == \(\*token_out\)\) => if !keys_equal(&current, token_out)
//@ loop 1: invariant _i <= path.len(), validated_market_tokens.len() == _i, walk(metas_of(path@), *token_in, _i as int) == Some(current), forall|j: int| 0 <= j < _i ==> #[trigger] path@[j].meta.is_some() && validated_market_tokens@[j] == path@[j].meta.unwrap().market_token_mint, forall|j: int| 0 <= j < _i ==> seen.has(#[trigger] path@[j].key), forall|k: Pubkey| seen.has(k) ==> exists|j: int| 0 <= j < _i && #[trigger] path@[j].key == k, forall|a: int, b: int| 0 <= a < b < _i ==> #[trigger] path@[a].key != #[trigger] path@[b].key, decreases path.len() - _i,
fn validate_path(tokens: &mut KeySet, path: &[MarketAcc], store: &Pubkey, token_in: &Pubkey, token_out: &Pubkey) -> (r: Result<Vec<Pubkey>, E>)
    ensures
        // an accepted path: every market account is valid and appears once; every step converts the previous step's output token into
        // the other pool token of its market (no no-op steps); the walk from `token_in` ends in `token_out`; the returned list is the
        // market tokens of the path in order
        r.is_ok() ==> ({
            let v = r.unwrap();
            &&& v.len() == path.len()
            &&& forall|j: int| 0 <= j < path.len() ==> #[trigger] path@[j].meta.is_some() && v@[j] == path@[j].meta.unwrap().market_token_mint
            &&& forall|a: int, b: int| 0 <= a < b < path.len() ==> #[trigger] path@[a].key != #[trigger] path@[b].key
            &&& walk(metas_of(path@), *token_in, path.len() as int) == Some(*token_out)
        }),
//@body

/// the metas of a path (arbitrary where an account is not a valid market: such a path is rejected)
pub open spec fn metas_of(p: Seq<MarketAcc>) -> Seq<MarketMeta> { Seq::new(p.len(), |i: int| if p[i].meta.is_some() { p[i].meta.unwrap() } else { arbitrary() }) }

// ---- swap_along_the_path ---------------------------------------------------------------------------------------------------
impl MarketMeta {
//@unit C44.MarketMeta.to_token_side
//@ file crates/utils/src/market.rs
//@ within impl MarketMeta
//@ fn to_token_side
//@ sig fn to_token_side(&self, token: &Pubkey) -> MarketResult<bool>
//@ sub MarketError::NotACollateralToken => E::Other
//@ sub if \*token == self\.long_token_mint \{ => if keys_equal(token, &self.long_token_mint) {
//@ sub \} else if \*token == self\.short_token_mint \{ => } else if keys_equal(token, &self.short_token_mint) {
    pub fn to_token_side(&self, token: &Pubkey) -> (r: Result<bool, E>)
        ensures r.is_ok() == (*token == self.long_token_mint || *token == self.short_token_mint), r.is_ok() ==> r.unwrap() == (*token == self.long_token_mint)
//@body
//@unit C44.MarketMeta.opposite_token
//@ file crates/utils/src/market.rs
//@ within impl MarketMeta
//@ fn opposite_token
//@ sig fn opposite_token(&self, token: &Pubkey) -> MarketResult<&Pubkey>
//@ sub MarketError::NotACollateralToken => E::Other
//@ sub if \*token == self\.long_token_mint \{ => if keys_equal(token, &self.long_token_mint) {
//@ sub \} else if \*token == self\.short_token_mint \{ => } else if keys_equal(token, &self.short_token_mint) {
    pub fn opposite_token(&self, token: &Pubkey) -> (r: Result<&Pubkey, E>)
        ensures r.is_ok() == (*token == self.long_token_mint || *token == self.short_token_mint),
            r.is_ok() ==> *r.unwrap() == (if *token == self.long_token_mint { self.short_token_mint } else { self.long_token_mint })
//@body
}
/// one record on a market's recorded balances
pub enum Op { In(Pubkey, u64), Out(Pubkey, u64) }
pub struct PricesP { pub tag: u64 }
pub struct SwapRep { pub token_out_amount: u128 }
impl SwapRep { pub fn token_out_amount(&self) -> (r: &u128) ensures *r == self.token_out_amount { &self.token_out_amount } }
/// `RevertibleMarket`: its meta, the log of balance records made on it, and everything else as one opaque value
pub struct RM { pub meta: MarketMeta, pub log: Ghost<Seq<Op>>, pub rest: u64 }
impl RM {
    pub fn market_meta(&self) -> (r: &MarketMeta) ensures *r == self.meta { &self.meta }
    /// ASSUMED (C22: RevertibleMarket::record_transferred_in / _out): the record is made, or the call fails; the meta is not touched
    #[verifier::external_body]
    pub fn record_transferred_in_by_token(&mut self, token: &Pubkey, amount: &u64) -> (r: Result<(), E>)
        ensures final(self).meta == old(self).meta, r.is_ok() ==> final(self).log@ == old(self).log@.push(Op::In(*token, *amount)), r.is_err() ==> final(self).log@ == old(self).log@
    { unimplemented!() }
    #[verifier::external_body]
    pub fn record_transferred_out_by_token(&mut self, token: &Pubkey, amount: &u64) -> (r: Result<(), E>)
        ensures final(self).meta == old(self).meta, r.is_ok() ==> final(self).log@ == old(self).log@.push(Op::Out(*token, *amount)), r.is_err() ==> final(self).log@ == old(self).log@
    { unimplemented!() }
    /// ASSUMED: update_borrowing(..).execute() + its event, the swap action (C04 / C05) + its event, the balance validation: they
    /// change pools and clocks of the market (the opaque rest), never its meta or its record log
    #[verifier::external_body]
    pub fn update_borrowing_and_emit(&mut self, prices: &PricesP, market_token: &Pubkey) -> (r: Result<(), E>) ensures final(self).meta == old(self).meta, final(self).log@ == old(self).log@ { unimplemented!() }
    #[verifier::external_body]
    pub fn swap_and_execute(&mut self, is_token_in_long: bool, amount: u128, prices: PricesP) -> (r: Result<SwapRep, E>) ensures final(self).meta == old(self).meta, final(self).log@ == old(self).log@ { unimplemented!() }
    #[verifier::external_body]
    pub fn validate_market_balances(&self, a: u64, b: u64) -> (r: Result<(), E>) { unimplemented!() }
    #[verifier::external_body]
    pub fn emit_swap_executed(&self, market_token: &Pubkey, report: SwapRep) -> (r: Result<(), E>) { unimplemented!() }
}
pub struct Oracle { pub tag: u64 }
impl Oracle { #[verifier::external_body] pub fn market_prices(&self, m: &RM) -> (r: Result<PricesP, E>) { unimplemented!() } }
/// `IndexMap<Pubkey, RevertibleMarket>` keyed by market token
#[verifier::external_body] pub struct MarketMap { _p: u8 }
impl MarketMap {
    pub uninterp spec fn view(&self) -> Map<Pubkey, RM>;
    #[verifier::external_body]
    pub fn get_mut(&mut self, token: &Pubkey) -> (r: Option<&mut RM>)
        ensures r.is_some() == old(self)@.dom().contains(*token),
            r.is_some() ==> *r.unwrap() == old(self)@[*token] && final(self)@ == old(self)@.insert(*token, *final(r.unwrap())),
            r.is_none() ==> final(self)@ == old(self)@,
    { unimplemented!() }
}
/// `SwapMarkets` + a ghost trace of the amounts handed from hop to hop (trace[0] = the input amount, trace[j+1] = output of hop j)
pub struct SwapMarkets { pub markets: MarketMap, pub trace: Ghost<Seq<u64>> }

pub open spec fn metas_on(ms: Map<Pubkey, RM>, path: Seq<Pubkey>) -> Seq<MarketMeta> { Seq::new(path.len(), |i: int| ms[path[i]].meta) }
pub open spec fn tok_at(ms: Map<Pubkey, RM>, path: Seq<Pubkey>, t0: Pubkey, j: int) -> Pubkey { walk(metas_on(ms, path), t0, j).unwrap() }
/// what the log of the j-th market of the path must be after the run: (for j > 0) the amount coming in from hop j-1 is recorded in,
/// (for j < n-1) the amount going out to hop j+1 is recorded out - the same token and the same amount on both sides of a hop
pub open spec fn hop_log(log0: Seq<Op>, j: int, n: int, ms0: Map<Pubkey, RM>, path: Seq<Pubkey>, t0: Pubkey, amts: Seq<u64>) -> Seq<Op> {
    let l1 = if j > 0 { log0.push(Op::In(tok_at(ms0, path, t0, j), amts[j])) } else { log0 };
    if j < n - 1 { l1.push(Op::Out(tok_at(ms0, path, t0, j + 1), amts[j + 1])) } else { l1 }
}
pub open spec fn hop_done(ms: Map<Pubkey, RM>, ms0: Map<Pubkey, RM>, path: Seq<Pubkey>, t0: Pubkey, amts: Seq<u64>, j: int) -> bool {
    ms.dom().contains(path[j]) && ms[path[j]].meta == ms0[path[j]].meta && ms[path[j]].log@ == hop_log(ms0[path[j]].log@, j, path.len() as int, ms0, path, t0, amts)
}
pub open spec fn hop_untouched(ms: Map<Pubkey, RM>, ms0: Map<Pubkey, RM>, path: Seq<Pubkey>, j: int) -> bool {
    ms.dom().contains(path[j]) == ms0.dom().contains(path[j]) && (ms0.dom().contains(path[j]) ==> ms[path[j]] == ms0[path[j]])
}

impl SwapMarkets {
//@unit C44.SwapMarkets.swap_along_the_path
//@ file programs/store/src/states/market/revertible/swap_market.rs
//@ within impl<'a, 'info> SwapMarkets<'a, 'info>
//@ fn swap_along_the_path
//@ sig fn swap_along_the_path( &mut self, oracle: &Oracle, path: &[Pubkey], token_in: &mut Pubkey, token_in_amount: &mut u64, ) -> Result<()>
//@ sub for \(idx, market_token\) in path\.iter\(\)\.enumerate\(\) \{ => let mut _c: usize = 0; while _c < path.len() { let market_token = &path[_c]; let idx = _c; _c += 1; let ghost ms1 = self.markets@; let ghost tr1 = self.trace@; let ghost tin = *token_in; let ghost ain = *token_in_amount;
//@ sub (?s)\s*\.map_err\(ModelError::from\)\? => ?
//@ sub (?s)\s*\.map_err\(E::Other\)\? => ?
//@ subopt (?s)if !\(\(\*token_in\) != \(token_out\)\) => if keys_equal(token_in, &token_out)
//@ sub (?s)\{\s*let report = market\s*\.update_borrowing\(&prices\)\?\s*\.execute\(\)\?;\s*market\s*\.event_emitter\(\)\s*\.emit_cpi\(&BorrowingFeesUpdated::from_report\(\s*market\.rev\(\),\s*\*market_token,\s*report,\s*\)\)\?;\s*\} => market.update_borrowing_and_emit(&prices, market_token)?;
//@ sub (?s)let report = market\s*\.swap\(side, \(\*token_in_amount\)\.into\(\), prices\)\?\s*\.execute\(\)\?; => let report = market.swap_and_execute(side, *token_in_amount as u128, prices)?;
//@ sub (?s)market\.event_emitter\(\)\.emit_cpi\(&SwapExecuted::new\(\s*market\.rev\(\),\s*\*market_token,\s*report,\s*None,\s*\)\)\?; => market.emit_swap_executed(market_token, report)?; proof { let ms2 = self.markets@; let tr = self.trace@; let n = path.len() as int; let i = idx as int; assert(hop_untouched(ms1, ms0, path@, i)); assert(ms1.dom().contains(path@[i])); assert(metas_on(ms0, path@)[i] == ms0[path@[i]].meta); assert(walk(metas_on(ms0, path@), t0, i + 1) == Some(*token_in)); assert(tok_at(ms0, path@, t0, i) == tin); assert(tok_at(ms0, path@, t0, i + 1) == *token_in); assert(tr[i] == ain && tr[i + 1] == *token_in_amount); assert(hop_done(ms2, ms0, path@, t0, tr, i)); assert forall|j: int| 0 <= j < i implies #[trigger] hop_done(ms2, ms0, path@, t0, tr, j) by { assert(hop_done(ms1, ms0, path@, t0, tr1, j)); assert(path@[j] != path@[i]); } assert forall|j: int| i + 1 <= j < n implies #[trigger] hop_untouched(ms2, ms0, path@, j) by { assert(hop_untouched(ms1, ms0, path@, j)); assert(path@[i] != path@[j]); } }
//@ sub (?s)\*token_in_amount = \(\*report\.token_out_amount\(\)\)\s*\.try_into\(\)\s*\.map_err\(\|_e\| E::Other\)\?; => *token_in_amount = u64::try_from(*report.token_out_amount()).map_err(|_e| -> (o: E) { E::Other })?; let ghost tr_ = self.trace@.push(*token_in_amount); self.trace = Ghost(tr_);
//@ top :: let ghost ms0 = self.markets@; let ghost t0 = *token_in; let ghost tr0_ = seq![*token_in_amount]; self.trace = Ghost(tr0_);
//@ loop 1: invariant _c <= path.len(), last_idx == path.len() - 1, path.len() > 0, self.trace@.len() == _c + 1, self.trace@[0] == *old(token_in_amount), self.trace@[_c as int] == *token_in_amount, walk(metas_on(ms0, path@), t0, _c as int) == Some(*token_in), forall|a: int, b: int| 0 <= a < b < path.len() ==> path@[a] != path@[b], forall|j: int| 0 <= j < _c ==> #[trigger] hop_done(self.markets@, ms0, path@, t0, self.trace@, j), forall|j: int| _c <= j < path.len() ==> #[trigger] hop_untouched(self.markets@, ms0, path@, j), decreases path.len() - _c,
    fn swap_along_the_path(&mut self, oracle: &Oracle, path: &[Pubkey], token_in: &mut Pubkey, token_in_amount: &mut u64) -> (r: Result<(), E>)
        requires
            // assumption stated in the source: the path consists of unique market tokens (checked by validated_*_swap_path)
            forall|a: int, b: int| 0 <= a < b < path.len() ==> path@[a] != path@[b],
        ensures
            // an empty path is a no-op
            r.is_ok() && path.len() == 0 ==> *final(token_in) == *old(token_in) && *final(token_in_amount) == *old(token_in_amount) && final(self).markets@ == old(self).markets@,
            // otherwise exactly the declared markets are used, in order: hop j converts the token hop j-1 produced (walk), the amount that
            // leaves market j is recorded OUT of it and the SAME amount of the SAME token is recorded INTO market j+1; nothing is
            // recorded into the first market (the input is already there) nor out of the last (the output stays there)
            r.is_ok() && path.len() > 0 ==> ({
                let n = path.len() as int; let ms0 = old(self).markets@; let t0 = *old(token_in); let tr = final(self).trace@;
                &&& tr.len() == n + 1 && tr[0] == *old(token_in_amount) && tr[n] == *final(token_in_amount)
                &&& walk(metas_on(ms0, path@), t0, n) == Some(*final(token_in))
                &&& forall|j: int| 0 <= j < n ==> #[trigger] hop_done(final(self).markets@, ms0, path@, t0, tr, j)
            }),
//@body
}

// ---- the duplicate check at execution: SwapActionParams::validated_{primary,secondary}_swap_path ----------------------------
/// the two stored paths (slices of the fixed `paths` array: primary_swap_path / secondary_swap_path are projections here)
pub struct SwapActionParamsC { pub primary: Vec<Pubkey>, pub secondary: Vec<Pubkey> }
pub open spec fn no_dup(p: Seq<Pubkey>) -> bool { forall|a: int, b: int| 0 <= a < b < p.len() ==> p[a] != p[b] }
impl SwapActionParamsC {
    pub fn primary_swap_path(&self) -> (r: &[Pubkey]) ensures r@ == self.primary@ { self.primary.as_slice() }
    pub fn secondary_swap_path(&self) -> (r: &[Pubkey]) ensures r@ == self.secondary@ { self.secondary.as_slice() }

//@unit C44.SwapActionParams.validated_primary_swap_path
//@ file crates/utils/src/swap.rs
//@ within impl SwapActionParams
//@ fn validated_primary_swap_path
//@ sig fn validated_primary_swap_path(&self) -> SwapActionParamsResult<&[Pubkey]>
//@ subopt let mut seen: HashSet<&Pubkey> = HashSet::default\(\); => let mut seen = KeySet::new();
//@ subopt if !self\s*\.(primary|secondary)_swap_path\(\)\s*\.iter\(\)\s*\.all\(move \|token\| seen\.insert\(token\)\)\s*\{ => let _p23 = self.\1_swap_path(); let mut _all23 = true; let mut _i23: usize = 0; while _i23 < _p23.len() { if !seen.insert(_p23[_i23]) { _all23 = false; break; } _i23 += 1; } if !_all23 {
//@ subopt SwapActionParamsError::InvalidSwapPath\("\w+"\) => E::Other
//@ loopopt 1: invariant_except_break _all23, invariant _i23 <= _p23.len(), _p23@ == self.primary@, forall|j: int| 0 <= j < _i23 ==> seen.has(#[trigger] _p23@[j]), forall|k: Pubkey| #[trigger] seen.has(k) ==> exists|j: int| 0 <= j < _i23 && _p23@[j] == k, forall|a: int, b: int| 0 <= a < b < _i23 ==> _p23@[a] != _p23@[b], ensures _all23 ==> _i23 == _p23.len(), !_all23 ==> _i23 < _p23.len() && exists|j: int| 0 <= j < _i23 && _p23@[j] == _p23@[_i23 as int], forall|a: int, b: int| 0 <= a < b < _i23 ==> _p23@[a] != _p23@[b], _p23@ == self.primary@, decreases _p23.len() - _i23,
    pub fn validated_primary_swap_path(&self) -> (r: Result<&[Pubkey], E>)
        ensures
            // RULE R23 (logged): `p.iter().all(move |t| seen.insert(t))` visits p front to back and stops at the first `false`.
            // the path is handed out exactly when no market token occurs twice in it
            r.is_ok() == no_dup(self.primary@),
            r.is_ok() ==> r.unwrap()@ == self.primary@,
//@body

//@unit C44.SwapActionParams.validated_secondary_swap_path
//@ file crates/utils/src/swap.rs
//@ within impl SwapActionParams
//@ fn validated_secondary_swap_path
//@ sig fn validated_secondary_swap_path(&self) -> SwapActionParamsResult<&[Pubkey]>
//@ subopt let mut seen: HashSet<&Pubkey> = HashSet::default\(\); => let mut seen = KeySet::new();
//@ subopt if !self\s*\.(primary|secondary)_swap_path\(\)\s*\.iter\(\)\s*\.all\(move \|token\| seen\.insert\(token\)\)\s*\{ => let _p23 = self.\1_swap_path(); let mut _all23 = true; let mut _i23: usize = 0; while _i23 < _p23.len() { if !seen.insert(_p23[_i23]) { _all23 = false; break; } _i23 += 1; } if !_all23 {
//@ subopt SwapActionParamsError::InvalidSwapPath\("\w+"\) => E::Other
//@ loopopt 1: invariant_except_break _all23, invariant _i23 <= _p23.len(), _p23@ == self.secondary@, forall|j: int| 0 <= j < _i23 ==> seen.has(#[trigger] _p23@[j]), forall|k: Pubkey| #[trigger] seen.has(k) ==> exists|j: int| 0 <= j < _i23 && _p23@[j] == k, forall|a: int, b: int| 0 <= a < b < _i23 ==> _p23@[a] != _p23@[b], ensures _all23 ==> _i23 == _p23.len(), !_all23 ==> _i23 < _p23.len() && exists|j: int| 0 <= j < _i23 && _p23@[j] == _p23@[_i23 as int], forall|a: int, b: int| 0 <= a < b < _i23 ==> _p23@[a] != _p23@[b], _p23@ == self.secondary@, decreases _p23.len() - _i23,
    pub fn validated_secondary_swap_path(&self) -> (r: Result<&[Pubkey], E>)
        ensures
            r.is_ok() == no_dup(self.secondary@),
            r.is_ok() ==> r.unwrap()@ == self.secondary@,
//@body
}
} // verus!
