//@include inc/model_base_u128.rs
// =================================================================================================
// C45  GLV pricing helpers (crates/model/src/glv.rs): get_glv_value_for_market,
//      get_market_token_amount_for_glv_value, and the round-trip lemma.
//      Store side (Glv::insert_market / validate_market_token_balance): verus/C45_store.rs. NOT covered: the choice of
//      the maximize flags in the GLV deposit / withdrawal operations.
// =================================================================================================
verus! {
//@struct crates/model/src/market/base.rs :: pub enum PnlFactorKind ::
#[derive(Clone, Copy)]
pub enum PnlFactorKind { MaxAfterDeposit, MaxAfterWithdrawal, MaxForTrader, ForAdl, MinAfterAdl }
/// prices are only forwarded to `pool_value`
pub struct Prices { pub tag: u8 }

/// Carrier for `M: LiquidityMarket`: the two things these functions read. `pool_value(prices, kind, maximize)`
/// is modelled as a (fallible) table lookup by (kind, maximize); `total_supply()` as a field read.
pub struct GlvMarket {
    pub value_deposit_max: Option<S>, pub value_deposit_min: Option<S>,
    pub value_withdrawal_max: Option<S>, pub value_withdrawal_min: Option<S>,
    pub supply: N,
}
pub open spec fn pool_value_spec(m: GlvMarket, kind: PnlFactorKind, maximize: bool) -> Option<S> {
    match kind {
        PnlFactorKind::MaxAfterDeposit => if maximize { m.value_deposit_max } else { m.value_deposit_min },
        PnlFactorKind::MaxAfterWithdrawal => if maximize { m.value_withdrawal_max } else { m.value_withdrawal_min },
        _ => None,
    }
}
impl GlvMarket {
    pub fn pool_value(&self, _prices: &Prices, kind: PnlFactorKind, maximize: bool) -> (r: Result<S, E>)
        ensures r.is_ok() == pool_value_spec(*self, kind, maximize).is_some(), r.is_ok() ==> r.unwrap() == pool_value_spec(*self, kind, maximize).unwrap()
    {
        let v = match kind {
            PnlFactorKind::MaxAfterDeposit => if maximize { self.value_deposit_max } else { self.value_deposit_min },
            PnlFactorKind::MaxAfterWithdrawal => if maximize { self.value_withdrawal_max } else { self.value_withdrawal_min },
            _ => None,
        };
        match v { Some(x) => Ok(x), None => Err(E::Other) }
    }
    pub fn total_supply(&self) -> (r: N) ensures r == self.supply { self.supply }
}

//@struct crates/model/src/glv.rs :: pub struct GlvValueForMarket<T: Unsigned> :: market_token_value_in_glv, pool_value, supply
pub struct GlvValueForMarket { pub market_token_value_in_glv: N, pub pool_value: S, pub supply: N }
impl GlvValueForMarket {
//@unit C45.GlvValueForMarket.new
//@ file crates/model/src/glv.rs
//@ within impl<T: Unsigned> GlvValueForMarket<T>
//@ fn new
//@ sig fn new(glv_value: T, pool_value: T::Signed, supply: T) -> Self
    pub fn new(glv_value: N, pool_value: S, supply: N) -> (r: GlvValueForMarket)
        ensures r.market_token_value_in_glv == glv_value, r.pool_value == pool_value, r.supply == supply
//@body
}

//@unit C45.get_glv_value_for_market
//@ file crates/model/src/glv.rs
//@ fn get_glv_value_for_market
//@ sig fn get_glv_value_for_market<M, const DECIMALS: u8>( prices: &Prices<M::Num>, market: &M, balance: M::Num, maximize: bool, ) -> crate::Result<GlvValueForMarket<M::Num>>
//@ sub utils::market_token_amount_to_usd => market_token_amount_to_usd
pub fn get_glv_value_for_market(prices: &Prices, market: &GlvMarket, balance: N, maximize: bool) -> (r: Result<GlvValueForMarket, E>)
    ensures
        // valued with the pool value for deposits under the requested maximize flag
        r.is_ok() ==> pool_value_spec(*market, PnlFactorKind::MaxAfterDeposit, maximize).is_some()
            && r.unwrap().pool_value == pool_value_spec(*market, PnlFactorKind::MaxAfterDeposit, maximize).unwrap()
            && r.unwrap().supply == market.supply,
        r.is_ok() && balance@ == 0 ==> r.unwrap().market_token_value_in_glv@ == 0,
        // a negative pool value never prices a non-empty balance
        r.is_ok() && balance@ != 0 ==> r.unwrap().pool_value@ >= 0 && market.supply@ != 0
            && r.unwrap().market_token_value_in_glv@ == mul_div_floor(r.unwrap().pool_value@, balance@, market.supply@),
//@body

//@unit C45.get_market_token_amount_for_glv_value
//@ file crates/model/src/glv.rs
//@ fn get_market_token_amount_for_glv_value
//@ sig fn get_market_token_amount_for_glv_value<M, const DECIMALS: u8>( prices: &Prices<M::Num>, market: &M, glv_value: M::Num, maximize: bool, glv_value_to_amount_divisor: M::Num, ) -> crate::Result<M::Num>
//@ sub utils::usd_to_market_token_amount => usd_to_market_token_amount
pub fn get_market_token_amount_for_glv_value(prices: &Prices, market: &GlvMarket, glv_value: N, maximize: bool, glv_value_to_amount_divisor: N) -> (r: Result<N, E>)
    ensures
        r.is_ok() ==> pool_value_spec(*market, PnlFactorKind::MaxAfterWithdrawal, maximize).is_some()
            && pool_value_spec(*market, PnlFactorKind::MaxAfterWithdrawal, maximize).unwrap()@ >= 0,
        // for a live market (supply and pool value non-zero): amount = floor(supply * value / pool value)
        (r.is_ok() && market.supply@ != 0 && pool_value_spec(*market, PnlFactorKind::MaxAfterWithdrawal, maximize).unwrap()@ != 0)
            ==> r.unwrap()@ == mul_div_floor(market.supply@, glv_value@, pool_value_spec(*market, PnlFactorKind::MaxAfterWithdrawal, maximize).unwrap()@),
//@body

/// Round trip at one and the same non-negative pool value V and supply S: market tokens -> GLV value (floor) ->
/// market tokens (floor) never returns more tokens than went in.  And a larger pool value on the way in than on
/// the way out can only reduce it further is NOT claimed (it is false): this is why deposits must be valued at the
/// maximised value and withdrawals at the minimised one -- the flag choice in the store ops is not covered here.
pub proof fn lemma_round_trip_no_gain(a: int, v: int, s: int)
    requires a >= 0, v > 0, s > 0
    ensures mul_div_floor(s, mul_div_floor(v, a, s), v) <= a
{
    let usd = (v * a) / s;
    lemma_mul_nonnegative(v, a);
    lemma_fundamental_div_mod(v * a, s);
    lemma_mod_bound(v * a, s);
    // s * usd <= v * a
    assert(s * usd <= v * a);
    lemma_div_pos_bound(v * a, s);
    lemma_mul_nonnegative(s, usd);
    lemma_div_is_ordered(s * usd, v * a, v);
    lemma_div_multiples_vanish(a, v);
    lemma_mul_is_commutative(v, a);
}
} // verus!
