//@include inc/model_base_u128.rs
//@include inc/glue_u128.rs
// =================================================================================================
// C37  Treasury factors stay valid; GT bank claim bookkeeping and the payout arithmetic
//      programs/treasury/src/states/config.rs  :: Config::{set_gt_factor, set_buyback_factor, gt_factor, buyback_factor}
//      programs/treasury/src/states/gt_bank.rs :: GtBank::{record_claimed, remaining_confirmed_gt_amount}
//      NOT covered: CompleteGtExchange::execute (handler with token CPIs), TokenBalances map operations.
// =================================================================================================
//@const programs/store/src/constants/mod.rs :: MARKET_USD_UNIT :: u128 = 10u128.pow(MARKET_DECIMALS as u32)
//@const programs/store/src/constants/mod.rs :: MARKET_DECIMALS :: u8 = Decimal::MAX_DECIMALS
//@const crates/utils/src/price/decimal.rs :: MAX_DECIMALS :: u8 = 20
verus! {
//@struct programs/treasury/src/states/config.rs :: pub struct Config :: version, bump, receiver_bump, padding_0, store, treasury_vault_config, gt_factor, buyback_factor, reserved
pub struct Config { pub gt_factor: u128, pub buyback_factor: u128 }

/// the invariant of the statement: both factors are at most 100 %
pub open spec fn config_wf(c: Config) -> bool { c.gt_factor <= uunit() && c.buyback_factor <= uunit() }

impl Config {
//@unit C37.Config.set_gt_factor
//@ file programs/treasury/src/states/config.rs
//@ within impl Config
//@ fn set_gt_factor
//@ sig fn set_gt_factor(&mut self, mut factor: u128) -> Result<u128>
    pub fn set_gt_factor(&mut self, mut factor: u128) -> (r: Result<u128, E>)
        ensures
            // a factor above 100 % is rejected; the 100 % bound is preserved by every call
            factor > uunit() ==> r.is_err(),
            config_wf(*old(self)) ==> config_wf(*final(self)),
            r.is_err() ==> *final(self) == *old(self),
            r.is_ok() ==> final(self).gt_factor == factor && r.unwrap() == old(self).gt_factor && final(self).buyback_factor == old(self).buyback_factor,
//@body

//@unit C37.Config.set_buyback_factor
//@ file programs/treasury/src/states/config.rs
//@ within impl Config
//@ fn set_buyback_factor
//@ sig fn set_buyback_factor(&mut self, mut factor: u128) -> Result<u128>
    pub fn set_buyback_factor(&mut self, mut factor: u128) -> (r: Result<u128, E>)
        ensures
            factor > uunit() ==> r.is_err(),
            config_wf(*old(self)) ==> config_wf(*final(self)),
            r.is_err() ==> *final(self) == *old(self),
            r.is_ok() ==> final(self).buyback_factor == factor && r.unwrap() == old(self).buyback_factor && final(self).gt_factor == old(self).gt_factor,
//@body
}

//@struct programs/treasury/src/states/gt_bank.rs :: pub struct GtBank :: version, bump, flags, padding, treasury_vault_config, gt_exchange_vault, remaining_confirmed_gt_amount, reserved, balances
pub struct GtBank { pub remaining_confirmed_gt_amount: u64 }
impl GtBank {
//@unit C37.GtBank.record_claimed
//@ file programs/treasury/src/states/gt_bank.rs
//@ within impl GtBank
//@ fn record_claimed
//@ sig fn record_claimed(&mut self, gt_amount: u64) -> Result<()>
    pub fn record_claimed(&mut self, gt_amount: u64) -> (r: Result<(), E>)
        ensures
            // a claim can never exceed the remaining confirmed GT, and reduces it by exactly the claimed amount
            r.is_ok() <==> gt_amount <= old(self).remaining_confirmed_gt_amount,
            r.is_ok() ==> final(self).remaining_confirmed_gt_amount == old(self).remaining_confirmed_gt_amount - gt_amount,
            r.is_err() ==> *final(self) == *old(self),
//@body

//@unit C37.GtBank.remaining_confirmed_gt_amount
//@ file programs/treasury/src/states/gt_bank.rs
//@ within impl GtBank
//@ fn remaining_confirmed_gt_amount
//@ sig fn remaining_confirmed_gt_amount(&self) -> u64
    pub fn remaining_confirmed_gt_amount(&self) -> (r: u64)
        ensures r == self.remaining_confirmed_gt_amount
//@body
}

/// payout of one claim for one token: balance * gt_amount / remaining GT, rounded down
pub open spec fn payout(balance: int, gt_amount: int, remaining: int) -> int { mul_div_floor(balance, gt_amount, remaining) }

/// Claims never pay out more than the bank holds, and the last claim (gt_amount == remaining) drains the bank.
pub proof fn lemma_payout_bounds(balance: int, gt_amount: int, remaining: int)
    requires balance >= 0, 0 <= gt_amount <= remaining, remaining > 0
    ensures 0 <= payout(balance, gt_amount, remaining) <= balance,
            gt_amount == remaining ==> payout(balance, gt_amount, remaining) == balance,
{
    lemma_mul_nonnegative(balance, gt_amount);
    lemma_mul_inequality(gt_amount, remaining, balance);
    lemma_mul_is_commutative(gt_amount, balance);
    lemma_mul_is_commutative(remaining, balance);
    lemma_div_is_ordered(balance * gt_amount, balance * remaining, remaining);
    lemma_div_multiples_vanish(balance, remaining);
    lemma_div_pos_bound(balance * gt_amount, remaining);
}
} // verus!
