//@include inc/model_base_u128.rs
//@include inc/price.rs
// =================================================================================================
// C11  Position profit and loss moves with the price in the right direction
//      crates/model/src/position.rs     :: PositionExt::{size_delta_in_tokens, pnl_value}   (trait-default methods)
//      crates/model/src/market/utils.rs :: MarketUtils::cap_pnl                             (trait-default method)
//      crates/model/src/market/base.rs  :: BaseMarketExt::pnl                               (trait-default method)
//      crates/model/src/price.rs        :: Price::pick_price_for_pnl                        (inc/price.rs)
// =================================================================================================
verus! {
//@struct crates/model/src/market/base.rs :: pub enum PnlFactorKind ::
#[derive(Clone, Copy)]
pub enum PnlFactorKind { MaxAfterDeposit, MaxAfterWithdrawal, MaxForTrader, ForAdl, MinAfterAdl }

//@struct crates/model/src/price.rs :: pub struct Prices<T> :: index_token_price, long_token_price, short_token_price
pub struct Prices { pub index_token_price: Price, pub long_token_price: Price, pub short_token_price: Price }

/// A two-sided amount (what `open_interest()` / `open_interest_in_tokens()` return: a merged `Balance`);
/// `amount(is_long)` is `long_amount()` / `short_amount()` of the `Balance` trait (glue).
#[derive(Clone, Copy)]
pub struct Sides { pub long: N, pub short: N }
impl Sides {
    pub fn amount(&self, is_long: bool) -> (r: Result<N, E>)
        ensures r.is_ok() && r.unwrap() == (if is_long { self.long } else { self.short })
    { if is_long { Ok(self.long) } else { Ok(self.short) } }
}

/// Carrier for `Self::Market`: the things `pnl_value`, `cap_pnl` and `pnl` read from a market, every read fallible.
///  * `open_interest()`, `open_interest_in_tokens()`: the two merged open-interest balances;
///  * `pool_value_without_pnl_for_one_side(prices, is_long, maximize)`: a table by (is_long, maximize);
///  * `pnl_factor_config(kind, is_long)`: a table by (kind, is_long).
pub struct PnlMarket {
    pub oi: Option<Sides>, pub oit: Option<Sides>,
    pub pv_long_max: Option<N>, pub pv_long_min: Option<N>, pub pv_short_max: Option<N>, pub pv_short_min: Option<N>,
    pub factors_long: KindTable, pub factors_short: KindTable,
}
/// pnl factor configuration of one side, one (fallible) entry per kind
pub struct KindTable { pub max_after_deposit: Option<N>, pub max_after_withdrawal: Option<N>, pub max_for_trader: Option<N>, pub for_adl: Option<N>, pub min_after_adl: Option<N> }
pub open spec fn kind_read(t: KindTable, kind: PnlFactorKind) -> Option<N> {
    match kind {
        PnlFactorKind::MaxAfterDeposit => t.max_after_deposit, PnlFactorKind::MaxAfterWithdrawal => t.max_after_withdrawal,
        PnlFactorKind::MaxForTrader => t.max_for_trader, PnlFactorKind::ForAdl => t.for_adl, PnlFactorKind::MinAfterAdl => t.min_after_adl,
    }
}
pub open spec fn pv_read(m: PnlMarket, is_long: bool, maximize: bool) -> Option<N> {
    if is_long { if maximize { m.pv_long_max } else { m.pv_long_min } } else { if maximize { m.pv_short_max } else { m.pv_short_min } }
}
pub open spec fn factor_read(m: PnlMarket, kind: PnlFactorKind, is_long: bool) -> Option<N> {
    if is_long { kind_read(m.factors_long, kind) } else { kind_read(m.factors_short, kind) }
}

// ---- the statement's vocabulary (mathematical integers) ------------------------------------------------------
/// a * n / d with the magnitude rounded down (truncation toward zero), a, d >= 0
pub open spec fn trunc_mul_div(a: int, n: int, d: int) -> int { if n < 0 { -mul_div_floor(a, -n, d) } else { mul_div_floor(a, n, d) } }
/// price used for the pnl of a close: the side of the index price that is worse for the trader
pub open spec fn close_price(p: Price, is_long: bool) -> int { if is_long { p.min@ } else { p.max@ } }
/// total (uncapped) pnl of a position at a price
pub open spec fn total_pnl(is_long: bool, tokens: int, usd: int, price: int) -> int { if is_long { tokens * price - usd } else { usd - tokens * price } }
/// pool pnl of one side at a price (open interest in tokens x price against open interest in usd)
pub open spec fn pool_pnl_spec(is_long: bool, oi: int, oit: int, price: int) -> int {
    if oi == 0 && oit == 0 { 0 } else if is_long { oit * price - oi } else { oi - oit * price }
}
/// a positive pnl is capped at pool value x factor
pub open spec fn cap_pnl_spec(pnl: int, pool_value: int, factor: int) -> int {
    if pnl > 0 { let m = mul_div_floor(pool_value, factor, uunit()); if pnl > m { m } else { pnl } } else { pnl }
}
/// the trader's total pnl after the pool cap: scaled by capped pool pnl / pool pnl when the cap bites
pub open spec fn capped_total(total: int, pool_pnl: int, capped_pool_pnl: int) -> int {
    if total > 0 && capped_pool_pnl != pool_pnl && capped_pool_pnl >= 0 && pool_pnl > 0 { trunc_mul_div(capped_pool_pnl, total, pool_pnl) } else { total }
}
/// tokens closed by a decrease of `delta` usd: everything on a full close, else proportional, rounded up for longs, down for shorts
pub open spec fn sdt_spec(is_long: bool, tokens: int, usd: int, delta: int) -> int {
    if usd == delta { tokens } else if is_long { mul_div_ceil(tokens, delta, usd) } else { mul_div_floor(tokens, delta, usd) }
}

impl PnlMarket {
    pub fn open_interest(&self) -> (r: Result<Sides, E>)
        ensures r.is_ok() == self.oi.is_some(), r.is_ok() ==> r.unwrap() == self.oi.unwrap()
    { match self.oi { Some(x) => Ok(x), None => Err(E::Other) } }
    pub fn open_interest_in_tokens(&self) -> (r: Result<Sides, E>)
        ensures r.is_ok() == self.oit.is_some(), r.is_ok() ==> r.unwrap() == self.oit.unwrap()
    { match self.oit { Some(x) => Ok(x), None => Err(E::Other) } }
    pub fn pool_value_without_pnl_for_one_side(&self, _prices: &Prices, is_long: bool, maximize: bool) -> (r: Result<N, E>)
        ensures r.is_ok() == pv_read(*self, is_long, maximize).is_some(), r.is_ok() ==> r.unwrap() == pv_read(*self, is_long, maximize).unwrap()
    {
        let v = if is_long { if maximize { self.pv_long_max } else { self.pv_long_min } } else { if maximize { self.pv_short_max } else { self.pv_short_min } };
        match v { Some(x) => Ok(x), None => Err(E::Other) }
    }
    pub fn pnl_factor_config(&self, kind: PnlFactorKind, is_long: bool) -> (r: Result<N, E>)
        ensures r.is_ok() == factor_read(*self, kind, is_long).is_some(), r.is_ok() ==> r.unwrap() == factor_read(*self, kind, is_long).unwrap()
    {
        let t = if is_long { &self.factors_long } else { &self.factors_short };
        let v = match kind {
            PnlFactorKind::MaxAfterDeposit => t.max_after_deposit, PnlFactorKind::MaxAfterWithdrawal => t.max_after_withdrawal,
            PnlFactorKind::MaxForTrader => t.max_for_trader, PnlFactorKind::ForAdl => t.for_adl, PnlFactorKind::MinAfterAdl => t.min_after_adl,
        };
        match v { Some(x) => Ok(x), None => Err(E::Other) }
    }

//@unit C11.BaseMarketExt.pnl
//@ file crates/model/src/market/base.rs
//@ within pub trait BaseMarketExt<const DECIMALS: u8>: BaseMarket<DECIMALS>
//@ fn pnl
//@ sig fn pnl( &self, index_token_price: &Price<Self::Num>, is_long: bool, maximize: bool, ) -> crate::Result<Self::Signed>
//@ sub use num_traits::CheckedMul; =>
    pub fn pnl(&self, index_token_price: &Price, is_long: bool, maximize: bool) -> (r: Result<S, E>)
        ensures
            r.is_ok() ==> self.oi.is_some() && self.oit.is_some(),
            // pool pnl of a side: open interest in tokens x picked index price against open interest in usd
            r.is_ok() ==> r.unwrap()@ == pool_pnl_spec(is_long,
                (if is_long { self.oi.unwrap().long@ } else { self.oi.unwrap().short@ }),
                (if is_long { self.oit.unwrap().long@ } else { self.oit.unwrap().short@ }),
                (if is_long != maximize { index_token_price.min@ } else { index_token_price.max@ })),
//@body

//@unit C11.MarketUtils.cap_pnl
//@ file crates/model/src/market/utils.rs
//@ within pub trait MarketUtils<const DECIMALS: u8>: BaseMarket<DECIMALS>
//@ fn cap_pnl
//@ sig fn cap_pnl( &self, is_long: bool, pnl: &Self::Signed, pool_value: &Self::Num, kind: PnlFactorKind, ) -> crate::Result<Self::Signed>
//@ sub crate::utils::apply_factor\( => apply_factor(
    pub fn cap_pnl(&self, is_long: bool, pnl: &S, pool_value: &N, kind: PnlFactorKind) -> (r: Result<S, E>)
        ensures
            // a non-positive pnl is returned as it is; a positive one is capped at pool value x configured factor
            pnl@ <= 0 ==> r.is_ok() && r.unwrap()@ == pnl@,
            r.is_ok() && pnl@ > 0 ==> factor_read(*self, kind, is_long).is_some()
                && r.unwrap()@ == cap_pnl_spec(pnl@, pool_value@, factor_read(*self, kind, is_long).unwrap()@),
            // the credited pnl never exceeds the uncapped one, and a positive pnl is never capped below zero
            r.is_ok() ==> r.unwrap()@ <= pnl@ && (pnl@ > 0 ==> r.unwrap()@ >= 0),
//@body
}

/// Carrier for `Self: Position`: the fields `size_delta_in_tokens` / `pnl_value` read.
pub struct Pos { pub long: bool, pub usd: N, pub tokens: N, pub mkt: PnlMarket }
impl Pos {
    pub fn is_long(&self) -> (r: bool) ensures r == self.long { self.long }
    pub fn size_in_usd(&self) -> (r: &N) ensures *r == self.usd { &self.usd }
    pub fn size_in_tokens(&self) -> (r: &N) ensures *r == self.tokens { &self.tokens }
    pub fn market(&self) -> (r: &PnlMarket) ensures *r == self.mkt { &self.mkt }

//@unit C11.PositionExt.size_delta_in_tokens
//@ file crates/model/src/position.rs
//@ within pub trait PositionExt<const DECIMALS: u8>: Position<DECIMALS>
//@ fn size_delta_in_tokens
//@ sig fn size_delta_in_tokens(&self, size_delta_usd: &Self::Num) -> crate::Result<Self::Num>
    pub fn size_delta_in_tokens(&self, size_delta_usd: &N) -> (r: Result<N, E>)
        ensures
            r.is_ok() ==> r.unwrap()@ == sdt_spec(self.long, self.tokens@, self.usd@, size_delta_usd@),
            r.is_ok() && self.usd@ != size_delta_usd@ ==> self.usd@ != 0,
//@body

//@unit C11.PositionExt.pnl_value
//@ file crates/model/src/position.rs
//@ within pub trait PositionExt<const DECIMALS: u8>: Position<DECIMALS>
//@ fn pnl_value
//@ sig fn pnl_value( &self, prices: &Prices<Self::Num>, size_delta_usd: &Self::Num, ) -> crate::Result<(Self::Signed, Self::Signed, Self::Num)>
//@ sub use num_traits::\{CheckedMul, CheckedSub\}; =>
    pub fn pnl_value(&self, prices: &Prices, size_delta_usd: &N) -> (r: Result<(S, S, N), E>)
        ensures
            // closed tokens; uncapped realised pnl = the closed share of the total pnl at the close price, truncated
            r.is_ok() ==> self.tokens@ != 0
                && r.unwrap().2@ == sdt_spec(self.long, self.tokens@, self.usd@, size_delta_usd@)
                && r.unwrap().1@ == trunc_mul_div(r.unwrap().2@,
                        total_pnl(self.long, self.tokens@, self.usd@, close_price(prices.index_token_price, self.long)), self.tokens@),
            // a non-positive total pnl is not capped
            r.is_ok() && total_pnl(self.long, self.tokens@, self.usd@, close_price(prices.index_token_price, self.long)) <= 0
                ==> r.unwrap().0@ == r.unwrap().1@,
            // a positive total pnl is scaled by (pool pnl capped with the TRADER factor) / (pool pnl), then shared the same way
            r.is_ok() && total_pnl(self.long, self.tokens@, self.usd@, close_price(prices.index_token_price, self.long)) > 0
                ==> pnl_reads_ok(*self, *prices)
                && r.unwrap().0@ == trunc_mul_div(r.unwrap().2@,
                        capped_total(total_pnl(self.long, self.tokens@, self.usd@, close_price(prices.index_token_price, self.long)),
                                     pool_pnl_of(*self, *prices), capped_pool_pnl_of(*self, *prices)), self.tokens@),
//@body
}

pub open spec fn pnl_reads_ok(p: Pos, prices: Prices) -> bool {
    p.mkt.oi.is_some() && p.mkt.oit.is_some() && pv_read(p.mkt, p.long, false).is_some()
    && (pool_pnl_of(p, prices) > 0 ==> factor_read(p.mkt, PnlFactorKind::MaxForTrader, p.long).is_some())
}
/// pool pnl as `pnl_value` reads it: maximised (longs: max index price, shorts: min)
pub open spec fn pool_pnl_of(p: Pos, prices: Prices) -> int {
    pool_pnl_spec(p.long, (if p.long { p.mkt.oi.unwrap().long@ } else { p.mkt.oi.unwrap().short@ }),
        (if p.long { p.mkt.oit.unwrap().long@ } else { p.mkt.oit.unwrap().short@ }),
        (if p.long { prices.index_token_price.max@ } else { prices.index_token_price.min@ }))
}
pub open spec fn capped_pool_pnl_of(p: Pos, prices: Prices) -> int {
    if pool_pnl_of(p, prices) > 0 {
        cap_pnl_spec(pool_pnl_of(p, prices), pv_read(p.mkt, p.long, false).unwrap()@, factor_read(p.mkt, PnlFactorKind::MaxForTrader, p.long).unwrap()@)
    } else { pool_pnl_of(p, prices) }
}

// ---- lemmas: the statement over the contracts ----------------------------------------------------------------
/// truncation toward zero is monotone in the signed numerator
pub proof fn lemma_trunc_monotone(a: int, n1: int, n2: int, d: int)
    requires a >= 0, d > 0, n1 <= n2
    ensures trunc_mul_div(a, n1, d) <= trunc_mul_div(a, n2, d)
{
    if n1 < 0 && n2 < 0 {
        lemma_mul_inequality(-n2, -n1, a); lemma_mul_is_commutative(a, -n1); lemma_mul_is_commutative(a, -n2);
        lemma_div_is_ordered(a * (-n2), a * (-n1), d);
    } else if n1 < 0 {
        lemma_mul_nonnegative(a, -n1); lemma_mul_nonnegative(a, n2);
        lemma_div_pos_bound(a * (-n1), d); lemma_div_pos_bound(a * n2, d);
    } else {
        lemma_mul_inequality(n1, n2, a); lemma_mul_is_commutative(a, n1); lemma_mul_is_commutative(a, n2);
        lemma_div_is_ordered(a * n1, a * n2, d);
    }
}
/// The total pnl moves with the price: up for a long, down for a short.
pub proof fn lemma_total_pnl_monotone(is_long: bool, tokens: int, usd: int, p1: int, p2: int)
    requires tokens >= 0, p1 <= p2
    ensures is_long ==> total_pnl(is_long, tokens, usd, p1) <= total_pnl(is_long, tokens, usd, p2),
            !is_long ==> total_pnl(is_long, tokens, usd, p1) >= total_pnl(is_long, tokens, usd, p2),
{
    lemma_mul_inequality(p1, p2, tokens);
    lemma_mul_is_commutative(tokens, p1); lemma_mul_is_commutative(tokens, p2);
}

/// Clause 1 (uncapped realised pnl): for a fixed position and closed size, never decreases as the price rises for
/// a long, never increases for a short.
pub proof fn lemma_uncapped_pnl_monotone(is_long: bool, tokens: int, usd: int, sdt: int, p1: int, p2: int)
    requires tokens > 0, sdt >= 0, p1 <= p2
    ensures is_long ==> trunc_mul_div(sdt, total_pnl(is_long, tokens, usd, p1), tokens) <= trunc_mul_div(sdt, total_pnl(is_long, tokens, usd, p2), tokens),
            !is_long ==> trunc_mul_div(sdt, total_pnl(is_long, tokens, usd, p1), tokens) >= trunc_mul_div(sdt, total_pnl(is_long, tokens, usd, p2), tokens),
{
    lemma_total_pnl_monotone(is_long, tokens, usd, p1, p2);
    if is_long { lemma_trunc_monotone(sdt, total_pnl(is_long, tokens, usd, p1), total_pnl(is_long, tokens, usd, p2), tokens); }
    else { lemma_trunc_monotone(sdt, total_pnl(is_long, tokens, usd, p2), total_pnl(is_long, tokens, usd, p1), tokens); }
}

/// the cap keeps the order of total pnls (pool pnl and its capped value held fixed)
pub proof fn lemma_capped_total_monotone(t1: int, t2: int, pool_pnl: int, capped: int)
    requires t1 <= t2
    ensures capped_total(t1, pool_pnl, capped) <= capped_total(t2, pool_pnl, capped)
{
    if capped != pool_pnl && capped >= 0 && pool_pnl > 0 {
        if t1 > 0 { lemma_trunc_monotone(capped, t1, t2, pool_pnl); }
        else if t2 > 0 { lemma_mul_nonnegative(capped, t2); lemma_div_pos_bound(capped * t2, pool_pnl); }
    }
}

/// Clause 1 (credited pnl, for one and the same pool state -- pool pnl and cap as read at the close):
/// never decreases as the close price rises for a long, never increases for a short.
pub proof fn lemma_capped_pnl_monotone(is_long: bool, tokens: int, usd: int, sdt: int, p1: int, p2: int, pool_pnl: int, capped: int)
    requires tokens > 0, sdt >= 0, p1 <= p2
    ensures is_long ==> trunc_mul_div(sdt, capped_total(total_pnl(is_long, tokens, usd, p1), pool_pnl, capped), tokens)
                     <= trunc_mul_div(sdt, capped_total(total_pnl(is_long, tokens, usd, p2), pool_pnl, capped), tokens),
            !is_long ==> trunc_mul_div(sdt, capped_total(total_pnl(is_long, tokens, usd, p1), pool_pnl, capped), tokens)
                     >= trunc_mul_div(sdt, capped_total(total_pnl(is_long, tokens, usd, p2), pool_pnl, capped), tokens),
{
    lemma_total_pnl_monotone(is_long, tokens, usd, p1, p2);
    let a = total_pnl(is_long, tokens, usd, p1); let b = total_pnl(is_long, tokens, usd, p2);
    if is_long { lemma_capped_total_monotone(a, b, pool_pnl, capped); lemma_trunc_monotone(sdt, capped_total(a, pool_pnl, capped), capped_total(b, pool_pnl, capped), tokens); }
    else { lemma_capped_total_monotone(b, a, pool_pnl, capped); lemma_trunc_monotone(sdt, capped_total(b, pool_pnl, capped), capped_total(a, pool_pnl, capped), tokens); }
}

/// Clause 2: the pnl credited to a trader never exceeds the uncapped pnl (capped pool pnl is at most the pool pnl:
/// postcondition of cap_pnl).
pub proof fn lemma_credited_le_uncapped(total: int, pool_pnl: int, capped: int, sdt: int, tokens: int)
    requires tokens > 0, sdt >= 0, capped <= pool_pnl
    ensures capped_total(total, pool_pnl, capped) <= total,
            trunc_mul_div(sdt, capped_total(total, pool_pnl, capped), tokens) <= trunc_mul_div(sdt, total, tokens),
{
    if total > 0 && capped != pool_pnl && capped >= 0 && pool_pnl > 0 {
        lemma_mul_inequality(capped, pool_pnl, total);
        lemma_mul_is_commutative(capped, total); lemma_mul_is_commutative(pool_pnl, total);
        lemma_mul_nonnegative(capped, total);
        lemma_div_is_ordered(capped * total, total * pool_pnl, pool_pnl);
        lemma_div_multiples_vanish(total, pool_pnl);
    }
    lemma_trunc_monotone(sdt, capped_total(total, pool_pnl, capped), total, tokens);
}

/// Clause 3: a partial close realises a share of the pnl proportional to the closed size, up to rounding:
/// the closed tokens are delta/usd of the position's tokens up to one token (up for longs, down for shorts; exactly all
/// of them on a full close), and the realised pnl is closed/tokens of the total up to one unit, toward zero.
pub proof fn lemma_share_proportional(is_long: bool, tokens: int, usd: int, delta: int, total: int)
    requires tokens > 0, usd > 0, 0 <= delta <= usd
    ensures ({
        let sdt = sdt_spec(is_long, tokens, usd, delta);
        let pnl = trunc_mul_div(sdt, total, tokens);
        &&& 0 <= sdt <= tokens
        &&& delta == usd ==> sdt == tokens && pnl == total
        &&& is_long ==> tokens * delta <= sdt * usd < tokens * delta + usd
        &&& !is_long ==> tokens * delta - usd < sdt * usd <= tokens * delta
        &&& total >= 0 ==> sdt * total - tokens < pnl * tokens <= sdt * total
        &&& total < 0 ==> sdt * total <= pnl * tokens < sdt * total + tokens
    })
{
    let sdt = sdt_spec(is_long, tokens, usd, delta);
    lemma_mul_nonnegative(tokens, delta);
    lemma_mul_inequality(delta, usd, tokens);
    lemma_mul_is_commutative(tokens, delta); lemma_mul_is_commutative(tokens, usd);
    if delta != usd {
        if is_long {
            let x = tokens * delta + usd - 1;
            lemma_fundamental_div_mod(x, usd); lemma_mod_bound(x, usd);
            lemma_div_pos_is_pos(x, usd);
            // sdt <= tokens because tokens*delta <= tokens*(usd-1)
            lemma_mul_is_distributive_sub(tokens, usd, 1);
            lemma_mul_inequality(delta, usd - 1, tokens);
            lemma_mul_is_commutative(tokens, usd - 1);
            assert(x <= tokens * usd + usd - 1 - tokens);
            lemma_div_is_ordered(x, tokens * usd + usd - 1 - tokens, usd);
            lemma_mul_is_commutative(usd, sdt);
            if sdt > tokens {
                lemma_mul_inequality(tokens + 1, sdt, usd);
                lemma_mul_is_distributive_add(usd, tokens, 1);
                lemma_mul_is_commutative(usd, tokens + 1);
                assert(false);
            }
        } else {
            let x = tokens * delta;
            lemma_fundamental_div_mod(x, usd); lemma_mod_bound(x, usd);
            lemma_div_pos_is_pos(x, usd);
            lemma_div_is_ordered(x, tokens * usd, usd);
            lemma_div_multiples_vanish(tokens, usd);
            lemma_mul_is_commutative(usd, sdt);
        }
    } else {
        lemma_mul_is_commutative(tokens, total);
        if total >= 0 { lemma_div_multiples_vanish(total, tokens); } else { lemma_mul_is_commutative(tokens, -total); lemma_div_multiples_vanish(-total, tokens); }
    }
    let pnl = trunc_mul_div(sdt, total, tokens);
    if total >= 0 {
        lemma_mul_nonnegative(sdt, total);
        lemma_fundamental_div_mod(sdt * total, tokens); lemma_mod_bound(sdt * total, tokens);
        lemma_mul_is_commutative(tokens, (sdt * total) / tokens);
    } else {
        lemma_mul_nonnegative(sdt, -total);
        lemma_fundamental_div_mod(sdt * (-total), tokens); lemma_mod_bound(sdt * (-total), tokens);
        lemma_mul_is_commutative(tokens, (sdt * (-total)) / tokens);
        lemma_mul_unary_negation(sdt, total);
        lemma_mul_unary_negation((sdt * (-total)) / tokens, tokens);
    }
}
} // verus!
