// ---------------------------------------------------------------------------------------------
// Verus prelude (template; `u128`/`i128` = unsigned/signed machine type of the instance, `100000000000000000000`
// = 10^DECIMALS of the instance). Everything here is verified by Verus on every run, except the
// items marked `external_body` / `assume_specification`, which are listed by the mechanical scan.
//
// N / S are the monomorphisation targets of the generic `T` / `T::Signed` of gmsol-model:
// every method has the *signature* the num_traits / gmsol-model trait gives it (by-ref), and a
// contract that is the exact integer semantics of the primitive it forwards to.
// ---------------------------------------------------------------------------------------------
#[allow(unused_imports)]
use vstd::prelude::*;
#[allow(unused_imports)]
use vstd::std_specs::cmp::*;
#[allow(unused_imports)]
use vstd::std_specs::convert::*;
#[allow(unused_imports)]
use vstd::std_specs::ops::*;
#[allow(unused_imports)]
use vstd::arithmetic::mul::*;
#[allow(unused_imports)]
use vstd::arithmetic::div_mod::*;
#[allow(unused_imports)]
use core::cmp::Ordering;

verus! {

#[derive(Debug)]
pub enum E {
    Convert, Computation, PowComputation, Overflow, Underflow, DividedByZero, InvalidArgument,
    InvalidPoolValue, EmptyDeposit, EmptyWithdrawal, EmptySwap, InsufficientFundsToPayForCosts,
    InvalidPosition, Liquidatable, NotLiquidatable, Unimplemented, InvalidPrices, InvalidTokenBalance,
    MaxPnlFactorExceeded, MaxPoolAmountExceeded, MaxPoolValueExceeded, MaxOpenInterestExceeded,
    InsufficientReserve, InsufficientReserveForOpenInterest, InvalidParams, Other,
}

#[derive(Clone, Copy, Eq, Debug)]
pub struct N(pub u128);
#[derive(Clone, Copy, Eq, Debug)]
pub struct S(pub i128);

impl View for N { type V = int; open spec fn view(&self) -> int { self.0 as int } }
impl View for S { type V = int; open spec fn view(&self) -> int { self.0 as int } }

pub open spec fn umax() -> int { u128::MAX as int }
pub open spec fn imax() -> int { i128::MAX as int }
pub open spec fn imin() -> int { i128::MIN as int }
pub open spec fn uunit() -> int { 100000000000000000000 }

// ---- comparisons ---------------------------------------------------------------------------
impl PartialEqSpecImpl for N {
    open spec fn obeys_eq_spec() -> bool { true }
    open spec fn eq_spec(&self, other: &N) -> bool { self.0 == other.0 }
}
impl PartialEq for N { fn eq(&self, other: &N) -> (r: bool) { self.0 == other.0 } }
impl PartialEqSpecImpl<u128> for N {
    open spec fn obeys_eq_spec() -> bool { true }
    open spec fn eq_spec(&self, other: &u128) -> bool { self.0 == *other }
}
impl PartialEq<u128> for N { fn eq(&self, other: &u128) -> (r: bool) { self.0 == *other } }
impl PartialOrdSpecImpl for N {
    open spec fn obeys_partial_cmp_spec() -> bool { true }
    open spec fn partial_cmp_spec(&self, other: &N) -> Option<Ordering> {
        if self.0 < other.0 { Some(Ordering::Less) } else if self.0 == other.0 { Some(Ordering::Equal) } else { Some(Ordering::Greater) }
    }
}
impl PartialOrd for N {
    fn partial_cmp(&self, other: &N) -> (r: Option<Ordering>) {
        if self.0 < other.0 { Some(Ordering::Less) } else if self.0 == other.0 { Some(Ordering::Equal) } else { Some(Ordering::Greater) }
    }
}
impl OrdSpecImpl for N {
    open spec fn obeys_cmp_spec() -> bool { true }
    open spec fn cmp_spec(&self, other: &N) -> Ordering {
        if self.0 < other.0 { Ordering::Less } else if self.0 == other.0 { Ordering::Equal } else { Ordering::Greater }
    }
}
impl Ord for N {
    fn cmp(&self, other: &N) -> (r: Ordering) {
        if self.0 < other.0 { Ordering::Less } else if self.0 == other.0 { Ordering::Equal } else { Ordering::Greater }
    }
}
impl PartialEqSpecImpl for S {
    open spec fn obeys_eq_spec() -> bool { true }
    open spec fn eq_spec(&self, other: &S) -> bool { self.0 == other.0 }
}
impl PartialEq for S { fn eq(&self, other: &S) -> (r: bool) { self.0 == other.0 } }
impl PartialOrdSpecImpl for S {
    open spec fn obeys_partial_cmp_spec() -> bool { true }
    open spec fn partial_cmp_spec(&self, other: &S) -> Option<Ordering> {
        if self.0 < other.0 { Some(Ordering::Less) } else if self.0 == other.0 { Some(Ordering::Equal) } else { Some(Ordering::Greater) }
    }
}
impl PartialOrd for S {
    fn partial_cmp(&self, other: &S) -> (r: Option<Ordering>) {
        if self.0 < other.0 { Some(Ordering::Less) } else if self.0 == other.0 { Some(Ordering::Equal) } else { Some(Ordering::Greater) }
    }
}
impl OrdSpecImpl for S {
    open spec fn obeys_cmp_spec() -> bool { true }
    open spec fn cmp_spec(&self, other: &S) -> Ordering {
        if self.0 < other.0 { Ordering::Less } else if self.0 == other.0 { Ordering::Equal } else { Ordering::Greater }
    }
}
impl Ord for S {
    fn cmp(&self, other: &S) -> (r: Ordering) {
        if self.0 < other.0 { Ordering::Less } else if self.0 == other.0 { Ordering::Equal } else { Ordering::Greater }
    }
}

// ---- Zero / One (shape of num_traits::{Zero, One}) --------------------------------------------
pub trait Zero: Sized {
    spec fn zero_spec() -> Self;
    fn zero() -> (r: Self) ensures r == Self::zero_spec();
}
pub trait One: Sized {
    spec fn one_spec() -> Self;
    fn one() -> (r: Self) ensures r == Self::one_spec();
}
impl Zero for N { open spec fn zero_spec() -> N { N(0) } fn zero() -> (r: N) { N(0) } }
impl Zero for S { open spec fn zero_spec() -> S { S(0) } fn zero() -> (r: S) { S(0) } }
impl One for N { open spec fn one_spec() -> N { N(1) } fn one() -> (r: N) { N(1) } }
impl One for S { open spec fn one_spec() -> S { S(1) } fn one() -> (r: S) { S(1) } }

// ---- conversions -------------------------------------------------------------------------------
impl TryFromSpecImpl<N> for S {
    open spec fn obeys_try_from_spec() -> bool { true }
    open spec fn try_from_spec(v: N) -> Result<S, E> {
        if v.0 <= i128::MAX as u128 { Ok(S(v.0 as i128)) } else { Err(E::Convert) }
    }
}
impl TryFrom<N> for S {
    type Error = E;
    fn try_from(v: N) -> (r: Result<S, E>) {
        if v.0 <= i128::MAX as u128 { Ok(S(v.0 as i128)) } else { Err(E::Convert) }
    }
}
impl TryFromSpecImpl<S> for N {
    open spec fn obeys_try_from_spec() -> bool { true }
    open spec fn try_from_spec(v: S) -> Result<N, E> {
        if v.0 >= 0 { Ok(N(v.0 as u128)) } else { Err(E::Convert) }
    }
}
impl TryFrom<S> for N {
    type Error = E;
    fn try_from(v: S) -> (r: Result<N, E>) {
        if v.0 >= 0 { Ok(N(v.0 as u128)) } else { Err(E::Convert) }
    }
}

// ---- N: num_traits-shaped checked ops ------------------------------------------------------------
impl N {
    pub const UNIT: N = N(100000000000000000000);
    pub const MAX: N = N(u128::MAX);

    pub fn checked_add(&self, v: &N) -> (r: Option<N>)
        ensures self@ + v@ <= umax() ==> r == Some(N((self@ + v@) as u128)),
                self@ + v@ > umax() ==> r.is_none(),
    { match self.0.checked_add(v.0) { Some(x) => Some(N(x)), None => None } }

    pub fn checked_sub(&self, v: &N) -> (r: Option<N>)
        ensures self@ >= v@ ==> r == Some(N((self@ - v@) as u128)),
                self@ < v@ ==> r.is_none(),
    { match self.0.checked_sub(v.0) { Some(x) => Some(N(x)), None => None } }

    pub fn checked_mul(&self, v: &N) -> (r: Option<N>)
        ensures self@ * v@ <= umax() ==> r == Some(N((self@ * v@) as u128)),
                self@ * v@ > umax() ==> r.is_none(),
    { match self.0.checked_mul(v.0) { Some(x) => Some(N(x)), None => None } }

    pub fn checked_div(&self, v: &N) -> (r: Option<N>)
        ensures v@ != 0 ==> r == Some(N((self@ / v@) as u128)),
                v@ == 0 ==> r.is_none(),
    { match self.0.checked_div(v.0) { Some(x) => Some(N(x)), None => None } }

    pub fn is_zero(&self) -> (r: bool) ensures r == (self@ == 0) { self.0 == 0 }
    pub fn is_one(&self) -> (r: bool) ensures r == (self@ == 1) { self.0 == 1 }

    pub fn diff(self, other: N) -> (r: N)
        ensures r@ == (if self@ >= other@ { self@ - other@ } else { other@ - self@ })
    { if self.0 >= other.0 { N(self.0 - other.0) } else { N(other.0 - self.0) } }

    pub fn min(self, other: N) -> (r: N)
        ensures r@ == (if self@ <= other@ { self@ } else { other@ }), r == self || r == other
    { if self.0 <= other.0 { self } else { other } }

    pub fn max(self, other: N) -> (r: N)
        ensures r@ == (if self@ >= other@ { self@ } else { other@ }), r == self || r == other
    { if self.0 >= other.0 { self } else { other } }
}

// ---- S: num_traits-shaped checked ops ------------------------------------------------------------
impl S {
    pub fn checked_add(&self, v: &S) -> (r: Option<S>)
        ensures imin() <= self@ + v@ <= imax() ==> r == Some(S((self@ + v@) as i128)),
                !(imin() <= self@ + v@ <= imax()) ==> r.is_none(),
    { match self.0.checked_add(v.0) { Some(x) => Some(S(x)), None => None } }

    pub fn checked_sub(&self, v: &S) -> (r: Option<S>)
        ensures imin() <= self@ - v@ <= imax() ==> r == Some(S((self@ - v@) as i128)),
                !(imin() <= self@ - v@ <= imax()) ==> r.is_none(),
    { match self.0.checked_sub(v.0) { Some(x) => Some(S(x)), None => None } }

    pub fn checked_mul(&self, v: &S) -> (r: Option<S>)
        ensures imin() <= self@ * v@ <= imax() ==> r == Some(S((self@ * v@) as i128)),
                !(imin() <= self@ * v@ <= imax()) ==> r.is_none(),
    { match self.0.checked_mul(v.0) { Some(x) => Some(S(x)), None => None } }

    /// Truncating division (toward zero), `None` on zero divisor or MIN / -1.
    /// The value is specified for positive divisors only (every signed division in the
    /// verified code divides by a value converted from an unsigned one); for a negative
    /// divisor only definedness is specified (sound under-specification).
    pub fn checked_div(&self, v: &S) -> (r: Option<S>)
        ensures v@ == 0 ==> r.is_none(),
                (self@ == imin() && v@ == -1) ==> r.is_none(),
                (v@ != 0 && !(self@ == imin() && v@ == -1)) ==> r.is_some(),
                v@ > 0 ==> r == Some(S(tdiv(self@, v@) as i128)),
    {
        if v.0 == 0 { return None; }
        if self.0 == i128::MIN && v.0 == -1 { return None; }
        proof { lemma_tdiv_range(self@, v@); }
        Some(S(self.0 / v.0))
    }

    pub fn checked_neg(&self) -> (r: Option<S>)
        ensures self@ != imin() ==> r == Some(S((-self@) as i128)),
                self@ == imin() ==> r.is_none(),
    { if self.0 == i128::MIN { None } else { Some(S(0 - self.0)) } }

    pub fn is_zero(&self) -> (r: bool) ensures r == (self@ == 0) { self.0 == 0 }
    pub fn is_positive(&self) -> (r: bool) ensures r == (self@ > 0) { self.0 > 0 }
    pub fn is_negative(&self) -> (r: bool) ensures r == (self@ < 0) { self.0 < 0 }

    /// `|self|` as unsigned (no vstd spec for `unsigned_abs`: by cases).
    pub fn unsigned_abs(&self) -> (r: N)
        ensures r@ == abs(self@)
    {
        if self.0 >= 0 { N(self.0 as u128) }
        else if self.0 == i128::MIN { N((i128::MAX as u128) + 1) }
        else { N((0 - self.0) as u128) }
    }
}

pub open spec fn abs(x: int) -> int { if x < 0 { -x } else { x } }

/// Truncating (toward zero) integer division, the semantics of Rust's `/` on signed integers.
pub open spec fn tdiv(a: int, b: int) -> int
    recommends b != 0
{
    if a >= 0 && b > 0 { a / b }
    else if a < 0 && b > 0 { -((-a) / b) }
    else if a >= 0 && b < 0 { -(a / (-b)) }
    else { (-a) / (-b) }
}

pub proof fn lemma_tdiv_range(a: int, b: int)
    requires b != 0, imin() <= a <= imax(), imin() <= b <= imax(), !(a == imin() && b == -1)
    ensures imin() <= tdiv(a, b) <= imax(),
{
    if a >= 0 && b > 0 { lemma_div_pos_bound(a, b); }
    else if a < 0 && b > 0 { lemma_div_pos_bound(-a, b); }
    else if a >= 0 && b < 0 { lemma_div_pos_bound(a, -b); }
    else {
        lemma_div_pos_bound(-a, -b);
        if a == imin() {
            // b <= -2, so (-a) / (-b) <= (-a) / 2 < -a
            lemma_div_is_ordered_by_denominator(-a, 2, -b);
            assert((-a) / 2 <= imax()) by { lemma_div_pos_bound(-a, 2); assert((-a) == imax() + 1); assert((-a) / 2 <= imax()) by(nonlinear_arith) requires (-a) == imax() + 1, imax() >= 1; }
        }
    }
}

pub proof fn lemma_div_pos_bound(a: int, b: int)
    requires a >= 0, b > 0
    ensures 0 <= a / b <= a
{
    lemma_div_pos_is_pos(a, b);
    lemma_div_is_ordered_by_denominator(a, 1, b);
    lemma_div_basics(a);
}

} // verus!

// ---- spec functions written from the property statements (mathematical integers) ---------------
verus! {
/// floor(x * n / d)
pub open spec fn mul_div_floor(x: int, n: int, d: int) -> int recommends d > 0 { (x * n) / d }
/// ceil(x * n / d)
pub open spec fn mul_div_ceil(x: int, n: int, d: int) -> int recommends d > 0 { (x * n + d - 1) / d }
/// ceil(a / d)
pub open spec fn div_ceil(a: int, d: int) -> int recommends d > 0 { (a + d - 1) / d }
pub open spec fn fit_u(v: int) -> Option<N> { if 0 <= v <= umax() { Some(N(v as u128)) } else { None } }
pub open spec fn fit_s(v: int) -> Option<S> { if imin() <= v <= imax() { Some(S(v as i128)) } else { None } }
pub open spec fn sign(x: int) -> int { if x < 0 { -1 } else { 1 } }
/// fixed-point integer power: pow_fixed(b,0)=UNIT, pow_fixed(b,k+1)=floor(pow_fixed(b,k)*b/UNIT)
pub open spec fn pow_fixed(b: int, k: nat) -> int decreases k {
    if k == 0 { uunit() } else { (pow_fixed(b, (k - 1) as nat) * b) / uunit() }
}
/// `pow_fixed(b, j)` fits the unsigned type for every j <= k (the loop of checked_pow_fixed
/// fails at the first intermediate that does not fit).
pub open spec fn pow_fixed_fits(b: int, k: nat) -> bool decreases k {
    if k == 0 { true } else { pow_fixed_fits(b, (k - 1) as nat) && pow_fixed(b, k) <= umax() }
}
} // verus!

// =================================================================================================
// C01  Fixed-point arithmetic is exact with the documented rounding (instance: u128 / i128, 20 dec)
// Every unit below is the function text of /repo, extracted on this run; the contract above each
// body is written from the property statement: result == integer spec in the documented
// direction, failure exactly on the stated set.
// =================================================================================================
// ---- ASSUMED CONTRACT on a dependency: ruint::aliases::U256 (ruint 1.x) ------------------------
// `U256` is an opaque 256-bit unsigned integer. Assumed: `From<u128>` is value preserving;
// `*` is exact when the product is < 2^256 (precondition; ruint wraps otherwise); `/` is floor
// division for a non-zero divisor (ruint panics otherwise: precondition); `div_ceil` is ceiling
// division; `TryFrom<U256> for u128` succeeds exactly for values <= u128::MAX.
verus! {
pub open spec fn pow2_256() -> int { 0x1_0000_0000_0000_0000_0000_0000_0000_0000_0000_0000_0000_0000_0000_0000_0000_0000int }
#[verifier::external_body]
#[derive(Clone, Copy)]
pub struct U256 { _x: [u64; 4] }
impl View for U256 { type V = int; uninterp spec fn view(&self) -> int; }
pub uninterp spec fn u256_of(v: int) -> U256;
pub broadcast proof fn axiom_u256_view(v: int)
    requires 0 <= v < pow2_256()
    ensures #[trigger] u256_of(v)@ == v
{ admit(); }
pub broadcast proof fn axiom_u256_range(x: U256)
    ensures 0 <= #[trigger] x@ < pow2_256()
{ admit(); }
impl FromSpecImpl<u128> for U256 {
    open spec fn obeys_from_spec() -> bool { true }
    open spec fn from_spec(v: u128) -> U256 { u256_of(v as int) }
}
impl From<u128> for U256 {
    #[verifier::external_body]
    fn from(v: u128) -> (r: U256) { unimplemented!() }
}
impl MulSpecImpl<U256> for U256 {
    open spec fn obeys_mul_spec() -> bool { true }
    open spec fn mul_req(self, rhs: U256) -> bool { self@ * rhs@ < pow2_256() }
    open spec fn mul_spec(self, rhs: U256) -> U256 { u256_of(self@ * rhs@) }
}
impl core::ops::Mul for U256 {
    type Output = U256;
    #[verifier::external_body]
    fn mul(self, rhs: U256) -> (r: U256) { unimplemented!() }
}
impl DivSpecImpl<U256> for U256 {
    open spec fn obeys_div_spec() -> bool { true }
    open spec fn div_req(self, rhs: U256) -> bool { rhs@ != 0 }
    open spec fn div_spec(self, rhs: U256) -> U256 { u256_of(self@ / rhs@) }
}
impl core::ops::Div for U256 {
    type Output = U256;
    #[verifier::external_body]
    fn div(self, rhs: U256) -> (r: U256) { unimplemented!() }
}
impl U256 {
    #[verifier::external_body]
    pub fn div_ceil(self, rhs: U256) -> (r: U256)
        requires rhs@ != 0
        ensures r == u256_of((self@ + rhs@ - 1) / rhs@)
    { unimplemented!() }
}
impl TryFromSpecImpl<U256> for u128 {
    open spec fn obeys_try_from_spec() -> bool { true }
    open spec fn try_from_spec(v: U256) -> Result<u128, ()> {
        if v@ <= u128::MAX { Ok(v@ as u128) } else { Err(()) }
    }
}
impl TryFrom<U256> for u128 {
    type Error = ();
    #[verifier::external_body]
    fn try_from(v: U256) -> (r: Result<u128, ()>) { unimplemented!() }
}
} // verus!

verus! {

// ---- leaf: impl MulDiv for u128 (via ruint U256, assumed contract inc/u256.rs) ---------------------
pub trait MulDivLeaf: Sized {
    spec fn val(&self) -> int;
    spec fn tmax() -> int;
    fn checked_mul_div(&self, numerator: &Self, denominator: &Self) -> (r: Option<Self>)
        ensures
            denominator.val() == 0 ==> r.is_none(),
            denominator.val() != 0 && mul_div_floor(self.val(), numerator.val(), denominator.val()) > Self::tmax() ==> r.is_none(),
            denominator.val() != 0 && mul_div_floor(self.val(), numerator.val(), denominator.val()) <= Self::tmax()
                ==> r.is_some() && r.unwrap().val() == mul_div_floor(self.val(), numerator.val(), denominator.val());
    fn checked_mul_div_ceil(&self, numerator: &Self, denominator: &Self) -> (r: Option<Self>)
        ensures
            denominator.val() == 0 ==> r.is_none(),
            denominator.val() != 0 && mul_div_ceil(self.val(), numerator.val(), denominator.val()) > Self::tmax() ==> r.is_none(),
            denominator.val() != 0 && mul_div_ceil(self.val(), numerator.val(), denominator.val()) <= Self::tmax()
                ==> r.is_some() && r.unwrap().val() == mul_div_ceil(self.val(), numerator.val(), denominator.val());
}

impl MulDivLeaf for u128 {
    open spec fn val(&self) -> int { *self as int }
    open spec fn tmax() -> int { u128::MAX as int }

    fn checked_mul_div(&self, numerator: &Self, denominator: &Self) -> (r: Option<Self>)
{ // <<< body extracted from crates/model/src/num.rs:345 (checked_mul_div) hash 21211a70d073e8d7

proof { broadcast use axiom_u256_view, axiom_u256_range; lemma_mul_upper_bound(*self as int, u128::MAX as int, *numerator as int, u128::MAX as int); }

            if *denominator == 0 {
                return None;
            }
            let x = U256::from(*self);
            let numerator = U256::from(*numerator);
            let denominator = U256::from(*denominator);
            let ans = x * numerator / denominator;
            ans.try_into().ok()
        
} // >>> end of extracted body

    fn checked_mul_div_ceil(&self, numerator: &Self, denominator: &Self) -> (r: Option<Self>)
{ // <<< body extracted from crates/model/src/num.rs:357 (checked_mul_div_ceil) hash b0653cc5162fbe9a

proof { broadcast use axiom_u256_view, axiom_u256_range; lemma_mul_upper_bound(*self as int, u128::MAX as int, *numerator as int, u128::MAX as int); }

            if *denominator == 0 {
                return None;
            }
            let x = U256::from(*self);
            let numerator = U256::from(*numerator);
            let denominator = U256::from(*denominator);
            let ans = (x * numerator).div_ceil(denominator);
            ans.try_into().ok()
        
} // >>> end of extracted body
}

} // verus!

// ---- N-level wrappers over the leaf + trait-default methods of gmsol_model::num (R3) -----------
verus! {

impl N {
    /// Monomorphisation glue (R1/R3): `T::checked_mul_div` at `T = u128` is the leaf impl above.
    pub fn checked_mul_div(&self, numerator: &N, denominator: &N) -> (r: Option<N>)
        ensures
            denominator@ == 0 ==> r.is_none(),
            denominator@ != 0 ==> r == fit_u(mul_div_floor(self@, numerator@, denominator@)),
    {
        proof { if denominator@ != 0 { lemma_mul_nonnegative(self@, numerator@); lemma_div_pos_bound(self@ * numerator@, denominator@); } }
        match self.0.checked_mul_div(&numerator.0, &denominator.0) { Some(x) => Some(N(x)), None => None }
    }
    pub fn checked_mul_div_ceil(&self, numerator: &N, denominator: &N) -> (r: Option<N>)
        ensures
            denominator@ == 0 ==> r.is_none(),
            denominator@ != 0 ==> r == fit_u(mul_div_ceil(self@, numerator@, denominator@)),
    {
        proof { if denominator@ != 0 { lemma_mul_nonnegative(self@, numerator@); lemma_div_pos_bound(self@ * numerator@ + denominator@ - 1, denominator@); } }
        match self.0.checked_mul_div_ceil(&numerator.0, &denominator.0) { Some(x) => Some(N(x)), None => None }
    }

    pub fn to_signed(&self) -> (r: Result<S, E>)
        ensures r.is_ok() <==> self@ <= imax(),
                r.is_ok() ==> r.unwrap()@ == self@,
{ // <<< body extracted from crates/model/src/num.rs:45 (to_signed) hash e017828e96b8eec7

        self.clone().try_into().map_err(|_e| E::Convert)
    
} // >>> end of extracted body

    pub fn to_signed_with_sign(&self, negative: bool) -> (r: Result<S, E>)
        ensures r.is_ok() <==> self@ <= imax(),
                r.is_ok() ==> r.unwrap()@ == (if negative { -self@ } else { self@ }),
{ // <<< body extracted from crates/model/src/num.rs:53 (to_signed_with_sign) hash 4d52bfb6d6e7a6b2

        if negative {
            self.to_opposite_signed()
        } else {
            self.to_signed()
        }
    
} // >>> end of extracted body

    pub fn to_opposite_signed(&self) -> (r: Result<S, E>)
        ensures r.is_ok() <==> self@ <= imax(),
                r.is_ok() ==> r.unwrap()@ == -self@,
{ // <<< body extracted from crates/model/src/num.rs:66 (to_opposite_signed) hash 0d88b99fe37b0a9d

        self.to_signed()?
            .checked_neg()
            .ok_or(E::Computation)
    
} // >>> end of extracted body

    pub fn checked_signed_sub(self, other: N) -> (r: Result<S, E>)
        ensures r.is_ok() <==> -imax() <= self@ - other@ <= imax(),
                r.is_ok() ==> r.unwrap()@ == self@ - other@,
{ // <<< body extracted from crates/model/src/num.rs:80 (checked_signed_sub) hash f9183db59003b313

        if self >= other {
            self.diff(other).to_signed()
        } else {
            self.diff(other).to_opposite_signed()
        }
    
} // >>> end of extracted body

    pub fn checked_add_with_signed(&self, other: &S) -> (r: Option<N>)
        ensures r == fit_u(self@ + other@),
{ // <<< body extracted from crates/model/src/num.rs:93 (checked_add_with_signed) hash 4659232da266aab5

        let value = other.unsigned_abs();
        if other.is_positive() {
            self.checked_add(&value)
        } else {
            self.checked_sub(&value)
        }
    
} // >>> end of extracted body

    pub fn checked_sub_with_signed(&self, other: &S) -> (r: Option<N>)
        ensures r == fit_u(self@ - other@),
{ // <<< body extracted from crates/model/src/num.rs:106 (checked_sub_with_signed) hash 79bb4e0aa8ed06df

        let value = other.unsigned_abs();
        if other.is_positive() {
            self.checked_sub(&value)
        } else {
            self.checked_add(&value)
        }
    
} // >>> end of extracted body

    pub fn checked_mul_with_signed(&self, other: &S) -> (r: Option<S>)
        ensures
            // failure set pinned exactly: the magnitude of the product must fit the positive range
            r.is_some() <==> self@ * abs(other@) <= imax(),
            r.is_some() ==> r.unwrap()@ == self@ * other@,
{ // <<< body extracted from crates/model/src/num.rs:119 (checked_mul_with_signed) hash b677e60f09cb402f

proof { lemma_mul_signed_abs(self@, other@); }

        let value = other.unsigned_abs();
        if other.is_negative() {
            Some(
                S::try_from(self.checked_mul(&value)?)
                    .ok()?
                    .checked_neg()?,
            )
        } else {
            self.checked_mul(&value)?.try_into().ok()
        }
    
} // >>> end of extracted body

    pub fn as_divisor_to_round_up_magnitude_div(&self, dividend: &S) -> (r: Option<S>)
        ensures
            r.is_some() <==> (0 < self@ <= imax()
                && (if dividend@ < 0 { dividend@ - self@ >= imin() } else { dividend@ + self@ <= imax() })),
            // magnitude rounded up, sign of the dividend kept
            r.is_some() ==> r.unwrap()@ == sign(dividend@) * div_ceil(abs(dividend@), self@),
{ // <<< body extracted from crates/model/src/num.rs:136 (as_divisor_to_round_up_magnitude_div) hash 889ade9751f71e21

        if self.is_zero() {
            return None;
        }
        let divisor: S = self.clone().try_into().ok()?;
        if dividend.is_negative() {
            dividend
                .checked_sub(&divisor)?
                .checked_add(&One::one())?
                .checked_div(&divisor)
        } else {
            dividend
                .checked_add(&divisor)?
                .checked_sub(&One::one())?
                .checked_div(&divisor)
        }
    
} // >>> end of extracted body

    pub fn checked_round_up_div(&self, divisor: &N) -> (r: Option<N>)
        ensures
            r.is_some() <==> (divisor@ != 0 && self@ + divisor@ <= umax()),
            r.is_some() ==> r.unwrap()@ == div_ceil(self@, divisor@),
{ // <<< body extracted from crates/model/src/num.rs:159 (checked_round_up_div) hash ef1ae2cce0832725

        if divisor.is_zero() {
            return None;
        }
        match self.checked_add(divisor) {
            Some(sum) => sum.checked_sub(&One::one())?.checked_div(divisor),
            // `self + divisor` does not fit in `Self`, but the quotient itself
            // always does, so compute it without the intermediate sum instead
            // of failing for large dividends.
            None => self.checked_div(divisor)?.checked_add(&One::one()),
        }
    
} // >>> end of extracted body

    pub fn bound_magnitude(value: &S, min: &N, max: &N) -> (r: Result<S, E>)
        ensures
            min@ > max@ ==> r.is_err(),
            // clamp target not representable => reported failure
            (min@ <= max@ && abs(value@) < min@ && min@ > imax()) ==> r.is_err(),
            (min@ <= max@ && abs(value@) > max@ && max@ > imax()) ==> r.is_err(),
            (min@ <= max@ && abs(value@) < min@ && min@ <= imax()) ==> r.is_ok() && r.unwrap()@ == sign(value@) * min@,
            (min@ <= max@ && abs(value@) >= min@ && abs(value@) > max@ && max@ <= imax()) ==> r.is_ok() && r.unwrap()@ == sign(value@) * max@,
            (min@ <= max@ && min@ <= abs(value@) <= max@) ==> r.is_ok() && r.unwrap()@ == value@,
            // summary: |result| within [min,max], sign kept (zero counts as positive)
            r.is_ok() ==> min@ <= abs(r.unwrap()@) <= max@ && (value@ < 0 ==> r.unwrap()@ <= 0) && (value@ >= 0 ==> r.unwrap()@ >= 0),
{ // <<< body extracted from crates/model/src/num.rs:217 (bound_magnitude) hash ef65c53f2a76e638

        if min > max {
            return Err(E::InvalidArgument);
        }
        let magnitude = value.unsigned_abs();
        let negative = value.is_negative();
        if magnitude < *min {
            min.to_signed_with_sign(negative)
        } else if magnitude > *max {
            max.to_signed_with_sign(negative)
        } else {
            Ok(value.clone())
        }
    
} // >>> end of extracted body

    pub fn checked_mul_div_with_signed_numerator(&self, numerator: &S, denominator: &N) -> (r: Option<S>)
        ensures
            r.is_some() <==> (denominator@ != 0 && mul_div_floor(self@, abs(numerator@), denominator@) <= imax()),
            // magnitude floored (i.e. truncation toward zero), sign of the numerator
            r.is_some() ==> r.unwrap()@ == (if numerator@ < 0 { -mul_div_floor(self@, abs(numerator@), denominator@) } else { mul_div_floor(self@, abs(numerator@), denominator@) }),
{ // <<< body extracted from crates/model/src/num.rs:262 (checked_mul_div_with_signed_numerator) hash 802552283f7eab84

proof { if numerator@ == 0 { lemma_mul_basics(self@); if denominator@ != 0 { lemma_div_basics(denominator@); } } }

        let ans: S = self
            .checked_mul_div(&numerator.unsigned_abs(), denominator)?
            .try_into()
            .ok()?;
        if numerator.is_positive() {
            Some(ans)
        } else {
            ans.checked_neg()
        }
    
} // >>> end of extracted body
}

pub proof fn lemma_mul_signed_abs(a: int, b: int)
    requires a >= 0
    ensures a * abs(b) >= 0, b < 0 ==> a * b == -(a * abs(b)), b >= 0 ==> a * b == a * abs(b)
{
    lemma_mul_nonnegative(a, abs(b));
    if b < 0 { lemma_mul_unary_negation(a, -b); }
}

} // verus!

// ---- gmsol_model::fixed::Fixed<T, DECIMALS> at the instance (data carrier R11; comparison impls
//      stand for the `#[derive(PartialEq, Eq, PartialOrd, Ord)]` on the one-field tuple struct) ----
verus! {
#[derive(Clone, Copy, Eq, Debug)]
pub struct Fixed(pub N);
impl View for Fixed { type V = int; open spec fn view(&self) -> int { self.0@ } }
impl PartialEqSpecImpl for Fixed {
    open spec fn obeys_eq_spec() -> bool { true }
    open spec fn eq_spec(&self, other: &Fixed) -> bool { self.0.0 == other.0.0 }
}
impl PartialEq for Fixed { fn eq(&self, other: &Fixed) -> (r: bool) { self.0.0 == other.0.0 } }
impl PartialOrdSpecImpl for Fixed {
    open spec fn obeys_partial_cmp_spec() -> bool { true }
    open spec fn partial_cmp_spec(&self, other: &Fixed) -> Option<Ordering> {
        if self.0.0 < other.0.0 { Some(Ordering::Less) } else if self.0.0 == other.0.0 { Some(Ordering::Equal) } else { Some(Ordering::Greater) }
    }
}
impl PartialOrd for Fixed {
    fn partial_cmp(&self, other: &Fixed) -> (r: Option<Ordering>) {
        if self.0.0 < other.0.0 { Some(Ordering::Less) } else if self.0.0 == other.0.0 { Some(Ordering::Equal) } else { Some(Ordering::Greater) }
    }
}
impl OrdSpecImpl for Fixed {
    open spec fn obeys_cmp_spec() -> bool { true }
    open spec fn cmp_spec(&self, other: &Fixed) -> Ordering {
        if self.0.0 < other.0.0 { Ordering::Less } else if self.0.0 == other.0.0 { Ordering::Equal } else { Ordering::Greater }
    }
}
impl Ord for Fixed {
    fn cmp(&self, other: &Fixed) -> (r: Ordering) {
        if self.0.0 < other.0.0 { Ordering::Less } else if self.0.0 == other.0.0 { Ordering::Equal } else { Ordering::Greater }
    }
}

/// The non-unit-exponent branch of `checked_pow_fixed` (rust_decimal `powd`, closures): OUT OF
/// REACH, left unspecified (any result). The code documents it as inconsistent and to be avoided.
#[verifier::external_body]
pub fn pow_fixed_non_unit(base: &N, exponent: &N) -> (r: Option<N>)
    requires exponent@ % uunit() != 0
{ unimplemented!() }

pub proof fn lemma_pow_fixed_fits_mono(b: int, j: nat, k: nat)
    requires j <= k, pow_fixed_fits(b, k)
    ensures pow_fixed_fits(b, j)
    decreases k
{
    if j < k { lemma_pow_fixed_fits_mono(b, j, (k - 1) as nat); }
}

impl Fixed {
    pub const ONE: Fixed = Fixed(N::UNIT);

    pub fn from_inner(inner: N) -> (r: Fixed) ensures r.0 == inner
{ // <<< body extracted from crates/model/src/fixed.rs:125 (from_inner) hash f5b58681dc64af17

        Self(inner)
    
} // >>> end of extracted body

    pub fn into_inner(self) -> (r: N) ensures r == self.0
{ // <<< body extracted from crates/model/src/fixed.rs:131 (into_inner) hash 5b9b821579099935

        self.0
    
} // >>> end of extracted body

    pub fn is_zero(&self) -> (r: bool) ensures r == (self@ == 0)
{ // <<< body extracted from crates/model/src/fixed.rs:182 (is_zero) hash 716deb1c2725deb4

        self.0.is_zero()
    
} // >>> end of extracted body

    pub fn is_one(&self) -> (r: bool) ensures r == (self@ == uunit())
{ // <<< body extracted from crates/model/src/fixed.rs:192 (is_one) hash a36a44e11450cbeb

        self.0 == Self::ONE.0
    
} // >>> end of extracted body

    pub fn checked_mul(&self, v: &Fixed) -> (r: Option<Fixed>)
        ensures
            r.is_some() <==> mul_div_floor(self@, v@, uunit()) <= umax(),
            r.is_some() ==> r.unwrap()@ == mul_div_floor(self@, v@, uunit()),
{ // <<< body extracted from crates/model/src/fixed.rs:172 (checked_mul) hash 05ae32a4c8c9df2b

        Some(Self(self.0.checked_mul_div(&v.0, &Self::ONE.0)?))
    
} // >>> end of extracted body

    pub fn checked_pow(&self, exponent: &Fixed) -> (r: Option<Fixed>)
        ensures
            exponent@ % uunit() == 0 ==> (r.is_some() <==> pow_fixed_fits(self@, (exponent@ / uunit()) as nat)),
            exponent@ % uunit() == 0 && r.is_some() ==> r.unwrap()@ == pow_fixed(self@, (exponent@ / uunit()) as nat),
{ // <<< body extracted from crates/model/src/fixed.rs:143 (checked_pow) hash 5d89460e724274cc

        let inner = self.0.checked_pow_fixed(&exponent.0)?;
        Some(Self(inner))
    
} // >>> end of extracted body
}

impl Zero for Fixed {
    open spec fn zero_spec() -> Fixed { Fixed(N(0)) }
    fn zero() -> (r: Fixed)
{ // <<< body extracted from crates/model/src/fixed.rs:178 (zero) hash 1a168d49715b1f7f

        Self(N::zero())
    
} // >>> end of extracted body
}
impl One for Fixed {
    open spec fn one_spec() -> Fixed { Fixed(N(100000000000000000000)) }
    fn one() -> (r: Fixed)
{ // <<< body extracted from crates/model/src/fixed.rs:188 (one) hash ec0492788f2542fc

        Self::ONE
    
} // >>> end of extracted body
}

impl N {
    pub fn checked_pow_fixed(&self, exponent: &N) -> (r: Option<N>)
        ensures
            exponent@ % uunit() == 0 ==> (r.is_some() <==> pow_fixed_fits(self@, (exponent@ / uunit()) as nat)),
            exponent@ % uunit() == 0 && r.is_some() ==> r.unwrap()@ == pow_fixed(self@, (exponent@ / uunit()) as nat),
{ // <<< body extracted from crates/model/src/fixed.rs:62 (checked_pow_fixed) hash 72a96e0a11535d6d

        use std::cmp::Ordering;

        let unit = N::UNIT;
        if exponent.0 % unit.0 == 0 {
            let exp = exponent.0 / unit.0;
            // Note: there is a better algorithm.
            let mut ans = Fixed::one();
            let base = Fixed::from_inner(*self); assert(pow_fixed_fits(self@, 0nat));
            for _it in 0..exp 
invariant base.0 == *self, ans@ == pow_fixed(self@, _it as nat), pow_fixed_fits(self@, _it as nat), exp as int == exponent@ / uunit(), exponent@ % uunit() == 0,

{
proof { if mul_div_floor(ans@, base@, uunit()) > umax() { assert(!pow_fixed_fits(self@, (_it + 1) as nat)); if pow_fixed_fits(self@, exp as nat) { lemma_pow_fixed_fits_mono(self@, (_it + 1) as nat, exp as nat); } } }
                ans = ans.checked_mul(&base)?;
            }
            return Some(ans.0);
        }
pow_fixed_non_unit(self, exponent)

} // >>> end of extracted body
}
} // verus!

// ---- gmsol_model::utils free functions (generic over T: instantiated at N) ----------------------
verus! {

/// `x^E` as the code evaluates it for whole-unit exponents (E = e / UNIT).
pub open spec fn aef(v: int, e: int) -> int {
    if v < uunit() { 0 } else if v == uunit() { uunit() } else if e == 0 { uunit() } else if e == uunit() { v }
    else { pow_fixed(v, (e / uunit()) as nat) }
}
/// whether `aef` is computable without overflow of an intermediate
pub open spec fn aef_defined(v: int, e: int) -> bool {
    v <= uunit() || e == 0 || e == uunit() || pow_fixed_fits(v, (e / uunit()) as nat)
}
/// `A * x^E` = floor(aef(x,E) * A / UNIT)
pub open spec fn apply_factors_spec(v: int, f: int, e: int) -> int { mul_div_floor(aef(v, e), f, uunit()) }

pub fn usd_to_market_token_amount(usd_value: N, pool_value: N, supply: N, usd_to_amount_divisor: N) -> (r: Option<N>)
    ensures
        usd_to_amount_divisor@ == 0 ==> r.is_none(),
        // first deposit: one USD buys one token unit (divided by the configured divisor), rounded down
        usd_to_amount_divisor@ != 0 && supply@ == 0 && pool_value@ == 0 ==> r == Some(N((usd_value@ / usd_to_amount_divisor@) as u128)),
        usd_to_amount_divisor@ != 0 && supply@ == 0 && pool_value@ != 0 ==>
            (r.is_some() <==> pool_value@ + usd_value@ <= umax())
            && (r.is_some() ==> r.unwrap()@ == (pool_value@ + usd_value@) / usd_to_amount_divisor@),
        usd_to_amount_divisor@ != 0 && supply@ != 0 && pool_value@ == 0 ==> r.is_none(),
        usd_to_amount_divisor@ != 0 && supply@ != 0 && pool_value@ != 0 ==> r == fit_u(mul_div_floor(supply@, usd_value@, pool_value@)),
{ // <<< body extracted from crates/model/src/utils.rs:13 (usd_to_market_token_amount) hash 3f2b4e8bf587b073

    if usd_to_amount_divisor.is_zero() {
        return None;
    }
    if supply.is_zero() && pool_value.is_zero() {
        usd_value.checked_div(&usd_to_amount_divisor)
    } else if supply.is_zero() && !pool_value.is_zero() {
        pool_value
            .checked_add(&usd_value)?
            .checked_div(&usd_to_amount_divisor)
    } else {
        supply.checked_mul_div(&usd_value, &pool_value)
    }

} // >>> end of extracted body

pub fn market_token_amount_to_usd(amount: &N, pool_value: &N, supply: &N) -> (r: Option<N>)
    ensures
        supply@ == 0 ==> r.is_none(),
        supply@ != 0 ==> r == fit_u(mul_div_floor(pool_value@, amount@, supply@)),
{ // <<< body extracted from crates/model/src/utils.rs:39 (market_token_amount_to_usd) hash 5cf573991fe088d9

    pool_value.checked_mul_div(amount, supply)

} // >>> end of extracted body

pub fn apply_factor(value: &N, factor: &N) -> (r: Option<N>)
    ensures r == fit_u(mul_div_floor(value@, factor@, uunit())),
{ // <<< body extracted from crates/model/src/utils.rs:108 (apply_factor) hash 99f493ce7e24e618

    value.checked_mul_div(factor, &N::UNIT)

} // >>> end of extracted body

pub fn div_to_factor(value: &N, divisor: &N, round_up_magnitude: bool) -> (r: Option<N>)
    ensures
        divisor@ == 0 ==> r == Some(N(0)),
        divisor@ != 0 && round_up_magnitude ==> r == fit_u(mul_div_ceil(value@, uunit(), divisor@)),
        divisor@ != 0 && !round_up_magnitude ==> r == fit_u(mul_div_floor(value@, uunit(), divisor@)),
{ // <<< body extracted from crates/model/src/utils.rs:120 (div_to_factor) hash 27880554cf6474c4

    if divisor.is_zero() {
        return Some(N::zero());
    }

    if round_up_magnitude {
        value.checked_mul_div_ceil(&N::UNIT, divisor)
    } else {
        value.checked_mul_div(&N::UNIT, divisor)
    }

} // >>> end of extracted body

pub fn div_to_factor_signed(value: &S, divisor: &N) -> (r: Option<S>)
    ensures
        divisor@ == 0 ==> r == Some(S(0)),
        divisor@ != 0 ==> (r.is_some() <==> mul_div_floor(uunit(), abs(value@), divisor@) <= imax()),
        divisor@ != 0 && r.is_some() ==> r.unwrap()@ == (if value@ < 0 { -mul_div_floor(uunit(), abs(value@), divisor@) } else { mul_div_floor(uunit(), abs(value@), divisor@) }),
{ // <<< body extracted from crates/model/src/utils.rs:144 (div_to_factor_signed) hash e1f83f9d351de8ed

    if divisor.is_zero() {
        return Some(Zero::zero());
    }

    N::UNIT.checked_mul_div_with_signed_numerator(value, divisor)

} // >>> end of extracted body

pub fn apply_exponent_factor_wrapped(value: N, exponent_factor: N) -> (r: Option<Fixed>)
    ensures
        exponent_factor@ % uunit() == 0 ==> (r.is_some() <==> aef_defined(value@, exponent_factor@)),
        exponent_factor@ % uunit() == 0 && r.is_some() ==> r.unwrap()@ == aef(value@, exponent_factor@),
        // a value below one unit is cut to zero and a unit value stays a unit whatever the exponent
        value@ < uunit() ==> r.is_some() && r.unwrap()@ == 0,
        value@ == uunit() ==> r.is_some() && r.unwrap()@ == uunit(),
{ // <<< body extracted from crates/model/src/utils.rs:64 (apply_exponent_factor_wrapped) hash 24a847eeed159613

    let unit = Fixed::ONE;
    let value = Fixed::from_inner(value);
    let exponent = Fixed::from_inner(exponent_factor);

    let ans = match value.cmp(&unit) {
        Ordering::Less => Fixed::zero(),
        Ordering::Equal => unit,
        Ordering::Greater => {
            if exponent.is_zero() {
                unit
            } else if exponent.is_one() {
                value
            } else {
                value.checked_pow(&exponent)?
            }
        }
    };
    Some(ans)

} // >>> end of extracted body

pub fn apply_exponent_factor(value: N, exponent_factor: N) -> (r: Option<N>)
    ensures
        exponent_factor@ % uunit() == 0 ==> (r.is_some() <==> aef_defined(value@, exponent_factor@)),
        exponent_factor@ % uunit() == 0 && r.is_some() ==> r.unwrap()@ == aef(value@, exponent_factor@),
{ // <<< body extracted from crates/model/src/utils.rs:95 (apply_exponent_factor) hash 4506a053f7453366

    Some(apply_exponent_factor_wrapped(value, exponent_factor)?.into_inner())

} // >>> end of extracted body

pub fn apply_factors(value: N, factor: N, exponent_factor: N) -> (r: Result<N, E>)
    ensures
        exponent_factor@ % uunit() == 0 ==> (r.is_ok() <==> aef_defined(value@, exponent_factor@) && apply_factors_spec(value@, factor@, exponent_factor@) <= umax()),
        exponent_factor@ % uunit() == 0 && r.is_ok() ==> r.unwrap()@ == apply_factors_spec(value@, factor@, exponent_factor@),
{ // <<< body extracted from crates/model/src/utils.rs:49 (apply_factors) hash b64cbc9cd9d158cb

    Ok(apply_exponent_factor_wrapped(value, exponent_factor)
        .ok_or(E::PowComputation)?
        .checked_mul(&Fixed::from_inner(factor))
        .ok_or(E::Overflow)?
        .into_inner())

} // >>> end of extracted body

} // verus!


fn main() {}
