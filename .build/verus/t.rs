use vstd::prelude::*;
use vstd::std_specs::ops::*;
use vstd::std_specs::convert::*;
verus! {
pub open spec fn pow2_256() -> int { 0x1_0000_0000_0000_0000_0000_0000_0000_0000_0000_0000_0000_0000_0000_0000_0000_0000int }
#[verifier::external_body]
#[derive(Clone, Copy)]
pub struct U256 { _x: [u64; 4] }
impl View for U256 { type V = int; uninterp spec fn view(&self) -> int; }
pub uninterp spec fn u256_of(v: int) -> U256;
pub broadcast proof fn axiom_u256_view(v: int)
    requires 0 <= v < pow2_256()
    ensures #[trigger] u256_of(v)@ == v
{ admit(); }
pub broadcast proof fn axiom_u256_range(x: U256)
    ensures 0 <= #[trigger] x@ < pow2_256()
{ admit(); }

impl FromSpecImpl<u128> for U256 {
    open spec fn obeys_from_spec() -> bool { true }
    open spec fn from_spec(v: u128) -> U256 { u256_of(v as int) }
}
impl From<u128> for U256 {
    #[verifier::external_body]
    fn from(v: u128) -> (r: U256) { unimplemented!() }
}
impl MulSpecImpl<U256> for U256 {
    open spec fn obeys_mul_spec() -> bool { true }
    open spec fn mul_req(self, rhs: U256) -> bool { self@ * rhs@ < pow2_256() }
    open spec fn mul_spec(self, rhs: U256) -> U256 { u256_of(self@ * rhs@) }
}
impl core::ops::Mul for U256 {
    type Output = U256;
    #[verifier::external_body]
    fn mul(self, rhs: U256) -> (r: U256) { unimplemented!() }
}
impl DivSpecImpl<U256> for U256 {
    open spec fn obeys_div_spec() -> bool { true }
    open spec fn div_req(self, rhs: U256) -> bool { rhs@ != 0 }
    open spec fn div_spec(self, rhs: U256) -> U256 { u256_of(self@ / rhs@) }
}
impl core::ops::Div for U256 {
    type Output = U256;
    #[verifier::external_body]
    fn div(self, rhs: U256) -> (r: U256) { unimplemented!() }
}
impl U256 {
    #[verifier::external_body]
    pub fn div_ceil(self, rhs: U256) -> (r: U256)
        requires rhs@ != 0
        ensures r == u256_of((self@ + rhs@ - 1) / rhs@)
    { unimplemented!() }
}
impl TryFromSpecImpl<U256> for u128 {
    open spec fn obeys_try_from_spec() -> bool { true }
    open spec fn try_from_spec(v: U256) -> Result<u128, ()> {
        if v@ <= u128::MAX { Ok(v@ as u128) } else { Err(()) }
    }
}
impl TryFrom<U256> for u128 {
    type Error = ();
    #[verifier::external_body]
    fn try_from(v: U256) -> (r: Result<u128, ()>) { unimplemented!() }
}

fn checked_mul_div(s: &u128, numerator: &u128, denominator: &u128) -> (r: Option<u128>)
    ensures *denominator == 0 ==> r.is_none(),
        *denominator != 0 && (*s * *numerator) / (*denominator as int) <= u128::MAX ==> r == Some(((*s * *numerator) / (*denominator as int)) as u128),
        *denominator != 0 && (*s * *numerator) / (*denominator as int) > u128::MAX ==> r.is_none(),
{
    broadcast use axiom_u256_view, axiom_u256_range;
            if *denominator == 0 {
                return None;
            }
            let x = U256::from(*s);
            let numerator = U256::from(*numerator);
            let denominator = U256::from(*denominator);
            proof { vstd::arithmetic::mul::lemma_mul_upper_bound(x@, u128::MAX as int, numerator@, u128::MAX as int); }
            let ans = x * numerator / denominator;
            ans.try_into().ok()
}
}
fn main(){}
