// ---------------------------------------------------------------------------------------------
// Verus prelude (template; `u128`/`i128` = unsigned/signed machine type of the instance, `100000000000000000000`
// = 10^DECIMALS of the instance). Everything here is verified by Verus on every run, except the
// items marked `external_body` / `assume_specification`, which are listed by the mechanical scan.
//
// N / S are the monomorphisation targets of the generic `T` / `T::Signed` of gmsol-model:
// every method has the *signature* the num_traits / gmsol-model trait gives it (by-ref), and a
// contract that is the exact integer semantics of the primitive it forwards to.
// ---------------------------------------------------------------------------------------------
#[allow(unused_imports)]
use vstd::prelude::*;
#[allow(unused_imports)]
use vstd::std_specs::cmp::*;
#[allow(unused_imports)]
use vstd::std_specs::convert::*;
#[allow(unused_imports)]
use vstd::std_specs::ops::*;
#[allow(unused_imports)]
use vstd::arithmetic::mul::*;
#[allow(unused_imports)]
use vstd::arithmetic::div_mod::*;
#[allow(unused_imports)]
use core::cmp::Ordering;

verus! {

#[derive(Debug)]
pub enum E {
    Convert, Computation, PowComputation, Overflow, Underflow, DividedByZero, InvalidArgument,
    InvalidPoolValue, EmptyDeposit, EmptyWithdrawal, EmptySwap, InsufficientFundsToPayForCosts,
    InvalidPosition, Liquidatable, NotLiquidatable, Unimplemented, InvalidPrices, InvalidTokenBalance,
    MaxPnlFactorExceeded, MaxPoolAmountExceeded, MaxPoolValueExceeded, MaxOpenInterestExceeded,
    InsufficientReserve, InsufficientReserveForOpenInterest, InvalidParams, Other,
}

#[derive(Clone, Copy, Eq, Debug)]
pub struct N(pub u128);
#[derive(Clone, Copy, Eq, Debug)]
pub struct S(pub i128);

impl View for N { type V = int; open spec fn view(&self) -> int { self.0 as int } }
impl View for S { type V = int; open spec fn view(&self) -> int { self.0 as int } }

pub open spec fn umax() -> int { u128::MAX as int }
pub open spec fn imax() -> int { i128::MAX as int }
pub open spec fn imin() -> int { i128::MIN as int }
pub open spec fn unit() -> int { 100000000000000000000 }

// ---- comparisons ---------------------------------------------------------------------------
impl PartialEqSpecImpl for N {
    open spec fn obeys_eq_spec() -> bool { true }
    open spec fn eq_spec(&self, other: &N) -> bool { self.0 == other.0 }
}
impl PartialEq for N { fn eq(&self, other: &N) -> (r: bool) { self.0 == other.0 } }
impl PartialOrdSpecImpl for N {
    open spec fn obeys_partial_cmp_spec() -> bool { true }
    open spec fn partial_cmp_spec(&self, other: &N) -> Option<Ordering> {
        if self.0 < other.0 { Some(Ordering::Less) } else if self.0 == other.0 { Some(Ordering::Equal) } else { Some(Ordering::Greater) }
    }
}
impl PartialOrd for N {
    fn partial_cmp(&self, other: &N) -> (r: Option<Ordering>) {
        if self.0 < other.0 { Some(Ordering::Less) } else if self.0 == other.0 { Some(Ordering::Equal) } else { Some(Ordering::Greater) }
    }
}
impl OrdSpecImpl for N {
    open spec fn obeys_cmp_spec() -> bool { true }
    open spec fn cmp_spec(&self, other: &N) -> Ordering {
        if self.0 < other.0 { Ordering::Less } else if self.0 == other.0 { Ordering::Equal } else { Ordering::Greater }
    }
}
impl Ord for N {
    fn cmp(&self, other: &N) -> (r: Ordering) {
        if self.0 < other.0 { Ordering::Less } else if self.0 == other.0 { Ordering::Equal } else { Ordering::Greater }
    }
}
impl PartialEqSpecImpl for S {
    open spec fn obeys_eq_spec() -> bool { true }
    open spec fn eq_spec(&self, other: &S) -> bool { self.0 == other.0 }
}
impl PartialEq for S { fn eq(&self, other: &S) -> (r: bool) { self.0 == other.0 } }
impl PartialOrdSpecImpl for S {
    open spec fn obeys_partial_cmp_spec() -> bool { true }
    open spec fn partial_cmp_spec(&self, other: &S) -> Option<Ordering> {
        if self.0 < other.0 { Some(Ordering::Less) } else if self.0 == other.0 { Some(Ordering::Equal) } else { Some(Ordering::Greater) }
    }
}
impl PartialOrd for S {
    fn partial_cmp(&self, other: &S) -> (r: Option<Ordering>) {
        if self.0 < other.0 { Some(Ordering::Less) } else if self.0 == other.0 { Some(Ordering::Equal) } else { Some(Ordering::Greater) }
    }
}
impl OrdSpecImpl for S {
    open spec fn obeys_cmp_spec() -> bool { true }
    open spec fn cmp_spec(&self, other: &S) -> Ordering {
        if self.0 < other.0 { Ordering::Less } else if self.0 == other.0 { Ordering::Equal } else { Ordering::Greater }
    }
}
impl Ord for S {
    fn cmp(&self, other: &S) -> (r: Ordering) {
        if self.0 < other.0 { Ordering::Less } else if self.0 == other.0 { Ordering::Equal } else { Ordering::Greater }
    }
}

// ---- Zero / One (shape of num_traits::{Zero, One}) --------------------------------------------
pub trait Zero: Sized {
    spec fn zero_spec() -> Self;
    fn zero() -> (r: Self) ensures r == Self::zero_spec();
}
pub trait One: Sized {
    spec fn one_spec() -> Self;
    fn one() -> (r: Self) ensures r == Self::one_spec();
}
impl Zero for N { open spec fn zero_spec() -> N { N(0) } fn zero() -> (r: N) { N(0) } }
impl Zero for S { open spec fn zero_spec() -> S { S(0) } fn zero() -> (r: S) { S(0) } }
impl One for N { open spec fn one_spec() -> N { N(1) } fn one() -> (r: N) { N(1) } }
impl One for S { open spec fn one_spec() -> S { S(1) } fn one() -> (r: S) { S(1) } }

// ---- conversions -------------------------------------------------------------------------------
impl TryFromSpecImpl<N> for S {
    open spec fn obeys_try_from_spec() -> bool { true }
    open spec fn try_from_spec(v: N) -> Result<S, E> {
        if v.0 <= i128::MAX as u128 { Ok(S(v.0 as i128)) } else { Err(E::Convert) }
    }
}
impl TryFrom<N> for S {
    type Error = E;
    fn try_from(v: N) -> (r: Result<S, E>) {
        if v.0 <= i128::MAX as u128 { Ok(S(v.0 as i128)) } else { Err(E::Convert) }
    }
}
impl TryFromSpecImpl<S> for N {
    open spec fn obeys_try_from_spec() -> bool { true }
    open spec fn try_from_spec(v: S) -> Result<N, E> {
        if v.0 >= 0 { Ok(N(v.0 as u128)) } else { Err(E::Convert) }
    }
}
impl TryFrom<S> for N {
    type Error = E;
    fn try_from(v: S) -> (r: Result<N, E>) {
        if v.0 >= 0 { Ok(N(v.0 as u128)) } else { Err(E::Convert) }
    }
}

// ---- N: num_traits-shaped checked ops ------------------------------------------------------------
impl N {
    pub const UNIT: N = N(100000000000000000000);
    pub const MAX: N = N(u128::MAX);

    pub fn checked_add(&self, v: &N) -> (r: Option<N>)
        ensures self@ + v@ <= umax() ==> r == Some(N((self@ + v@) as u128)),
                self@ + v@ > umax() ==> r.is_none(),
    { match self.0.checked_add(v.0) { Some(x) => Some(N(x)), None => None } }

    pub fn checked_sub(&self, v: &N) -> (r: Option<N>)
        ensures self@ >= v@ ==> r == Some(N((self@ - v@) as u128)),
                self@ < v@ ==> r.is_none(),
    { match self.0.checked_sub(v.0) { Some(x) => Some(N(x)), None => None } }

    pub fn checked_mul(&self, v: &N) -> (r: Option<N>)
        ensures self@ * v@ <= umax() ==> r == Some(N((self@ * v@) as u128)),
                self@ * v@ > umax() ==> r.is_none(),
    { match self.0.checked_mul(v.0) { Some(x) => Some(N(x)), None => None } }

    pub fn checked_div(&self, v: &N) -> (r: Option<N>)
        ensures v@ != 0 ==> r == Some(N((self@ / v@) as u128)),
                v@ == 0 ==> r.is_none(),
    { match self.0.checked_div(v.0) { Some(x) => Some(N(x)), None => None } }

    pub fn is_zero(&self) -> (r: bool) ensures r == (self@ == 0) { self.0 == 0 }
    pub fn is_one(&self) -> (r: bool) ensures r == (self@ == 1) { self.0 == 1 }

    pub fn diff(self, other: N) -> (r: N)
        ensures r@ == (if self@ >= other@ { self@ - other@ } else { other@ - self@ })
    { if self.0 >= other.0 { N(self.0 - other.0) } else { N(other.0 - self.0) } }

    pub fn min(self, other: N) -> (r: N)
        ensures r@ == (if self@ <= other@ { self@ } else { other@ }), r == self || r == other
    { if self.0 <= other.0 { self } else { other } }

    pub fn max(self, other: N) -> (r: N)
        ensures r@ == (if self@ >= other@ { self@ } else { other@ }), r == self || r == other
    { if self.0 >= other.0 { self } else { other } }
}

// ---- S: num_traits-shaped checked ops ------------------------------------------------------------
impl S {
    pub fn checked_add(&self, v: &S) -> (r: Option<S>)
        ensures imin() <= self@ + v@ <= imax() ==> r == Some(S((self@ + v@) as i128)),
                !(imin() <= self@ + v@ <= imax()) ==> r.is_none(),
    { match self.0.checked_add(v.0) { Some(x) => Some(S(x)), None => None } }

    pub fn checked_sub(&self, v: &S) -> (r: Option<S>)
        ensures imin() <= self@ - v@ <= imax() ==> r == Some(S((self@ - v@) as i128)),
                !(imin() <= self@ - v@ <= imax()) ==> r.is_none(),
    { match self.0.checked_sub(v.0) { Some(x) => Some(S(x)), None => None } }

    pub fn checked_mul(&self, v: &S) -> (r: Option<S>)
        ensures imin() <= self@ * v@ <= imax() ==> r == Some(S((self@ * v@) as i128)),
                !(imin() <= self@ * v@ <= imax()) ==> r.is_none(),
    { match self.0.checked_mul(v.0) { Some(x) => Some(S(x)), None => None } }

    /// Truncating division (toward zero), `None` on zero divisor or MIN / -1.
    /// The value is specified for positive divisors only (every signed division in the
    /// verified code divides by a value converted from an unsigned one); for a negative
    /// divisor only definedness is specified (sound under-specification).
    pub fn checked_div(&self, v: &S) -> (r: Option<S>)
        ensures v@ == 0 ==> r.is_none(),
                (self@ == imin() && v@ == -1) ==> r.is_none(),
                (v@ != 0 && !(self@ == imin() && v@ == -1)) ==> r.is_some(),
                v@ > 0 ==> r == Some(S(tdiv(self@, v@) as i128)),
    {
        if v.0 == 0 { return None; }
        if self.0 == i128::MIN && v.0 == -1 { return None; }
        proof { lemma_tdiv_range(self@, v@); }
        Some(S(self.0 / v.0))
    }

    pub fn checked_neg(&self) -> (r: Option<S>)
        ensures self@ != imin() ==> r == Some(S((-self@) as i128)),
                self@ == imin() ==> r.is_none(),
    { if self.0 == i128::MIN { None } else { Some(S(0 - self.0)) } }

    pub fn is_zero(&self) -> (r: bool) ensures r == (self@ == 0) { self.0 == 0 }
    pub fn is_positive(&self) -> (r: bool) ensures r == (self@ > 0) { self.0 > 0 }
    pub fn is_negative(&self) -> (r: bool) ensures r == (self@ < 0) { self.0 < 0 }

    /// `|self|` as unsigned (no vstd spec for `unsigned_abs`: by cases).
    pub fn unsigned_abs(&self) -> (r: N)
        ensures r@ == abs(self@)
    {
        if self.0 >= 0 { N(self.0 as u128) }
        else if self.0 == i128::MIN { N((i128::MAX as u128) + 1) }
        else { N((0 - self.0) as u128) }
    }
}

pub open spec fn abs(x: int) -> int { if x < 0 { -x } else { x } }

/// Truncating (toward zero) integer division, the semantics of Rust's `/` on signed integers.
pub open spec fn tdiv(a: int, b: int) -> int
    recommends b != 0
{
    if a >= 0 && b > 0 { a / b }
    else if a < 0 && b > 0 { -((-a) / b) }
    else if a >= 0 && b < 0 { -(a / (-b)) }
    else { (-a) / (-b) }
}

pub proof fn lemma_tdiv_range(a: int, b: int)
    requires b != 0, imin() <= a <= imax(), imin() <= b <= imax(), !(a == imin() && b == -1)
    ensures imin() <= tdiv(a, b) <= imax(),
{
    if a >= 0 && b > 0 { lemma_div_pos_bound(a, b); }
    else if a < 0 && b > 0 { lemma_div_pos_bound(-a, b); }
    else if a >= 0 && b < 0 { lemma_div_pos_bound(a, -b); }
    else {
        lemma_div_pos_bound(-a, -b);
        if a == imin() {
            // b <= -2, so (-a) / (-b) <= (-a) / 2 < -a
            lemma_div_is_ordered_by_denominator(-a, 2, -b);
            assert((-a) / 2 <= imax()) by { lemma_div_pos_bound(-a, 2); assert((-a) == imax() + 1); assert((-a) / 2 <= imax()) by(nonlinear_arith) requires (-a) == imax() + 1, imax() >= 1; }
        }
    }
}

pub proof fn lemma_div_pos_bound(a: int, b: int)
    requires a >= 0, b > 0
    ensures 0 <= a / b <= a
{
    lemma_div_pos_is_pos(a, b);
    lemma_div_is_ordered_by_denominator(a, 1, b);
    lemma_div_basics(a);
}

} // verus!
fn main(){}
