import sys; sys.path.insert(0,'/verif')
from engine import verus
t=sys.argv[1]
meta=verus.generate('/verif/verus/'+t+'.rs','/repo','/verif/.build/verus/'+t+'_gen.rs')
print('\n'.join(meta['log']))
res=verus.run_verus(meta['path'])
f,u,vr=verus.classify(res,meta)
print(vr, round(res['wall'],1))
for k,v in f.items():
    print('FAILED',k); print(v[0])
for x in u: print('UNDECIDED',x)
