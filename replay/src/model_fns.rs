use gmsol_model::fixed::{Fixed, FixedPointOps};
use gmsol_model::num::{MulDiv, Unsigned};
use gmsol_model::utils;

fn o<T: std::fmt::Display>(v: Option<T>) -> String {
    match v {
        Some(x) => format!("Some({x})"),
        None => "None".into(),
    }
}
fn r<T: std::fmt::Display, E>(v: Result<T, E>) -> String {
    match v {
        Ok(x) => format!("Ok({x})"),
        Err(_) => "Err".into(),
    }
}

macro_rules! width {
    ($name:expr, $a:expr, $U:ty, $I:ty, $D:expr) => {{
        let u = |i: usize| -> $U { $a[i].parse::<$U>().unwrap() };
        let s = |i: usize| -> $I { $a[i].parse::<$I>().unwrap() };
        let b = |i: usize| -> bool { $a[i] == "true" };
        Some(match $name {
            "checked_mul_div" => o(u(0).checked_mul_div(&u(1), &u(2))),
            "checked_mul_div_ceil" => o(u(0).checked_mul_div_ceil(&u(1), &u(2))),
            "checked_mul_div_with_signed_numerator" => o(u(0).checked_mul_div_with_signed_numerator(&s(1), &u(2))),
            "to_signed" => r(u(0).to_signed()),
            "to_signed_with_sign" => r(u(0).to_signed_with_sign(b(1))),
            "to_opposite_signed" => r(u(0).to_opposite_signed()),
            "checked_signed_sub" => r(u(0).checked_signed_sub(u(1))),
            "checked_add_with_signed" => o(u(0).checked_add_with_signed(&s(1))),
            "checked_sub_with_signed" => o(u(0).checked_sub_with_signed(&s(1))),
            "checked_mul_with_signed" => o(u(0).checked_mul_with_signed(&s(1))),
            "as_divisor_to_round_up_magnitude_div" => o(u(0).as_divisor_to_round_up_magnitude_div(&s(1))),
            "checked_round_up_div" => o(u(0).checked_round_up_div(&u(1))),
            "bound_magnitude" => r(<$U as Unsigned>::bound_magnitude(&s(0), &u(1), &u(2))),
            "usd_to_market_token_amount" => o(utils::usd_to_market_token_amount(u(0), u(1), u(2), u(3))),
            "market_token_amount_to_usd" => o(utils::market_token_amount_to_usd(&u(0), &u(1), &u(2))),
            "apply_factor" => o(utils::apply_factor::<$U, $D>(&u(0), &u(1))),
            "div_to_factor" => o(utils::div_to_factor::<$U, $D>(&u(0), &u(1), b(2))),
            "div_to_factor_signed" => o(utils::div_to_factor_signed::<$U, $D>(&s(0), &u(1))),
            "apply_exponent_factor" => o(utils::apply_exponent_factor::<$U, $D>(u(0), u(1))),
            "apply_factors" => r(utils::apply_factors::<$U, $D>(u(0), u(1), u(2))),
            "checked_pow_fixed" => o(<$U as FixedPointOps<$D>>::checked_pow_fixed(&u(0), &u(1))),
            "Fixed.checked_mul" => {
                use num_traits::CheckedMul;
                o(Fixed::<$U, $D>::from_inner(u(0)).checked_mul(&Fixed::<$U, $D>::from_inner(u(1))).map(|f| f.into_inner()))
            }
            "Fixed.checked_pow" => o(Fixed::<$U, $D>::from_inner(u(0)).checked_pow(&Fixed::<$U, $D>::from_inner(u(1))).map(|f| f.into_inner())),
            "apply_fees" | "fee" | "base_position_fees" => {
                use gmsol_model::params::fee::FeeParams;
                use gmsol_model::pool::delta::BalanceChange;
                use gmsol_model::price::Price;
                let p = FeeParams::<$U>::builder()
                    .positive_impact_fee_factor(u(0))
                    .negative_impact_fee_factor(u(1))
                    .fee_receiver_factor(u(2))
                    .build();
                let p = if $a[3] == "none" { p } else { p.with_discount_factor(u(3)) };
                let bc = match $a[4].as_str() { "improved" => BalanceChange::Improved, "worsened" => BalanceChange::Worsened, _ => BalanceChange::Unchanged };
                match $name {
                    "fee" => o(p.fee::<$D>(bc, &u(5))),
                    "apply_fees" => match p.apply_fees::<$D>(bc, &u(5)) {
                        Some((net, f)) => format!("Some({net},{},{})", f.fee_amount_for_pool(), f.fee_amount_for_receiver()),
                        None => "None".into(),
                    },
                    _ => match p.base_position_fees::<$D>(&Price { min: u(6), max: u(7) }, &u(5), bc) {
                        Ok(f) => format!("Ok({},{},{})", f.order_fees().fee_value(), f.order_fees().fee_amounts().fee_amount_for_pool(), f.order_fees().fee_amounts().fee_amount_for_receiver()),
                        Err(_) => "Err".into(),
                    },
                }
            }
            _ => return None,
        })
    }};
}

fn decimal(name: &str, a: &[String]) -> Option<String> {
    use gmsol_utils::price::Decimal;
    let n = |i: usize| -> u128 { a[i].parse::<u128>().unwrap() };
    Some(match name {
        // <price> <decimals> <token_decimals> <precision>
        "try_from_price" => match Decimal::try_from_price(n(0), n(1) as u8, n(2) as u8, n(3) as u8) {
            Ok(d) => format!("Ok({},{})", d.value, d.decimal_multiplier),
            Err(_) => "Err".into(),
        },
        // <value> <decimal_multiplier> <unit price> <round_up>  ->  "<to_unit_price> <with_unit_price>"
        "with_unit_price" => {
            let d = Decimal { value: n(0) as u32, decimal_multiplier: n(1) as u8 };
            let w = match d.with_unit_price(n(2), a[3] == "true") {
                Some(x) => format!("Some({},{})", x.value, x.decimal_multiplier),
                None => "None".into(),
            };
            format!("{} {}", d.to_unit_price(), w)
        }
        _ => return None,
    })
}

/// `impact.pending <current pool amount> <min amount> <distribute factor> <secs>` on the real
/// trait-default method, through the model crate's own `TestMarket<u128, 20>`.
fn impact(name: &str, a: &[String]) -> Option<String> {
    use gmsol_model::params::position::PositionImpactDistributionParams;
    use gmsol_model::test::{TestMarket, TestMarketConfig};
    use gmsol_model::{PositionImpactMarketExt, PositionImpactMarketMutExt};
    let n = |i: usize| -> u128 { a[i].parse::<u128>().unwrap() };
    Some(match name {
        "pending" => {
            let mut config = TestMarketConfig::<u128, 20>::default();
            config.position_impact_distribution_params = PositionImpactDistributionParams::builder()
                .distribute_factor(n(2))
                .min_position_impact_pool_amount(n(1))
                .build();
            let mut market = TestMarket::<u128, 20>::with_config(config);
            // the pool holds i128-range deltas only: feed the amount in two halves
            let cur = n(0);
            let h1 = cur / 2;
            let h2 = cur - h1;
            market.apply_delta_to_position_impact_pool(&(h1 as i128)).ok()?;
            market.apply_delta_to_position_impact_pool(&(h2 as i128)).ok()?;
            match market.pending_position_impact_pool_distribution_amount(a[3].parse::<u64>().unwrap()) {
                Ok((d, next)) => format!("Ok({d},{next})"),
                Err(_) => "Err".into(),
            }
        }
        _ => return None,
    })
}

/// `action.completed <state code>` / `action.cancelled <state code>` on the real gmsol_utils::action::ActionState.
fn action(name: &str, a: &[String]) -> Option<String> {
    use gmsol_utils::action::ActionState;
    let code: u8 = a[0].parse().ok()?;
    let Ok(st) = ActionState::try_from(code) else { return Some("NoSuchState".into()) };
    let r = match name {
        "completed" => st.completed(),
        "cancelled" => st.cancelled(),
        _ => return None,
    };
    Some(match r { Ok(s) => format!("Ok({})", u8::from(s)), Err(_) => "Err".into() })
}

/// `funding.next <duration> <long oi> <short oi> <stored factor (signed)> <exponent> <funding factor> <increase> <decrease>
/// <max> <min> <threshold stable> <threshold decrease>` on the real UpdateFundingState::next_funding_factor_per_second,
/// through the model crate's own `TestMarket<u128, 20>`.
fn funding(name: &str, a: &[String]) -> Option<String> {
    use gmsol_model::action::update_funding_state::UpdateFundingState;
    use gmsol_model::params::fee::FundingFeeParams;
    use gmsol_model::price::{Price, Prices};
    use gmsol_model::test::{TestMarket, TestMarketConfig};
    use gmsol_model::PerpMarketMut;
    let n = |i: usize| -> u128 { a[i].parse::<u128>().unwrap() };
    Some(match name {
        "next" => {
            let mut config = TestMarketConfig::<u128, 20>::default();
            config.funding_fee_params = FundingFeeParams::builder()
                .exponent(n(4)).funding_factor(n(5)).increase_factor_per_second(n(6)).decrease_factor_per_second(n(7))
                .max_factor_per_second(n(8)).min_factor_per_second(n(9))
                .threshold_for_stable_funding(n(10)).threshold_for_decrease_funding(n(11)).build();
            let mut market = TestMarket::<u128, 20>::with_config(config);
            *market.funding_factor_per_second_mut() = a[3].parse::<i128>().unwrap();
            let p = Price { min: 1u128, max: 1u128 };
            let prices = Prices { index_token_price: p.clone(), long_token_price: p.clone(), short_token_price: p };
            let action = UpdateFundingState::try_new(&mut market, &prices).ok()?;
            match action.next_funding_factor_per_second(a[0].parse::<u64>().unwrap(), &n(1), &n(2)) {
                Ok((mag, longs_pay, next)) => format!("Ok({mag},{longs_pay},{next})"),
                Err(_) => "Err".into(),
            }
        }
        _ => return None,
    })
}

/// `pimpact.price <long usd> <short usd> <delta long (signed)> <delta short (signed)> <exponent> <positive> <negative>`
/// on the real PoolDelta::try_new(..).price_impact::<20>(..) with unit token prices (usd value == amount).
fn pimpact(name: &str, a: &[String]) -> Option<String> {
    use gmsol_model::params::PriceImpactParams;
    use gmsol_model::pool::delta::{BalanceChange, PoolDelta};
    struct P(u128, u128);
    impl gmsol_model::Balance for P {
        type Num = u128;
        type Signed = i128;
        fn long_amount(&self) -> gmsol_model::Result<u128> { Ok(self.0) }
        fn short_amount(&self) -> gmsol_model::Result<u128> { Ok(self.1) }
    }
    let n = |i: usize| -> u128 { a[i].parse::<u128>().unwrap() };
    let s = |i: usize| -> i128 { a[i].parse::<i128>().unwrap() };
    Some(match name {
        "price" => {
            let params = PriceImpactParams::builder().exponent(n(4)).positive_factor(n(5)).negative_factor(n(6)).build();
            let Ok(d) = PoolDelta::try_new(&P(n(0), n(1)), s(2), s(3), &1u128, &1u128) else { return Some("ErrDelta".into()) };
            match d.price_impact::<20>(&params) {
                Ok(pi) => format!("Ok({},{})", pi.value, match pi.balance_change { BalanceChange::Improved => "Improved", BalanceChange::Worsened => "Worsened", BalanceChange::Unchanged => "Unchanged" }),
                Err(_) => "Err".into(),
            }
        }
        _ => return None,
    })
}

/// `swapcap.amount <impact pool long> <impact pool short> <is_long_token> <price min> <price max> <usd impact (signed)>` on the real
/// SwapMarketExt::swap_impact_amount_with_cap through the model crate's own `TestMarket<u128, 20>`.
fn swapcap(name: &str, a: &[String]) -> Option<String> {
    use gmsol_model::price::Price;
    use gmsol_model::test::TestMarket;
    use gmsol_model::{PoolExt, SwapMarketExt, SwapMarketMut};
    let n = |i: usize| -> u128 { a[i].parse::<u128>().unwrap() };
    Some(match name {
        "amount" => {
            let mut market = TestMarket::<u128, 20>::default();
            // the pool takes i128 deltas: feed each amount in two halves
            for (is_long, v) in [(true, n(0)), (false, n(1))] {
                let h1 = v / 2;
                market.swap_impact_pool_mut().ok()?.apply_delta_amount(is_long, &(h1 as i128)).ok()?;
                market.swap_impact_pool_mut().ok()?.apply_delta_amount(is_long, &((v - h1) as i128)).ok()?;
            }
            let price = Price { min: n(3), max: n(4) };
            match market.swap_impact_amount_with_cap(a[2] == "true", &price, &a[5].parse::<i128>().unwrap()) {
                Ok((amount, capped)) => format!("Ok({amount},{capped})"),
                Err(_) => "Err".into(),
            }
        }
        _ => return None,
    })
}


/// `position.history <seed> <nops> <index price> <token prices>`: a pseudo-random history of increases and decreases (with
/// clock moves) of eight positions - two per (side, collateral token) - on the model crate's own `TestMarket<u64, 9>`, each step
/// through the REAL IncreasePosition / DecreasePosition actions. A failed action is rolled back (as a failed transaction is).
/// Output: one `;`-separated record per successful step: `<step> <kind> <position> <a> <b> <removed> | 8 x usd,tokens,collateral |
/// oi(LL,LS,SL,SS) | oi in tokens(..) | collateral sums(..)`; the oracle (sums match) lives on the Python side.
fn position(name: &str, a: &[String]) -> Option<String> {
    use gmsol_model::action::decrease_position::DecreasePositionFlags;
    use gmsol_model::price::Prices;
    use gmsol_model::test::{TestMarket, TestPosition};
    use gmsol_model::{Balance, BaseMarket, LiquidityMarketMutExt, MarketAction, PositionMutExt, PositionState};
    if name != "history" { return None; }
    const UNIT: u128 = 100_000_000_000_000_000_000;
    let mut seed: u64 = a[0].parse().ok()?;
    let nops: usize = a[1].parse().ok()?;
    let index: u128 = a[2].parse().ok()?;
    let tokp: u128 = a[3].parse().ok()?;
    let mut rnd = move || { seed = seed.wrapping_mul(6364136223846793005).wrapping_add(1442695040888963407); (seed >> 33) as u128 };
    let mut market = TestMarket::<u128, 20>::default();
    let p0 = Prices::new_for_test(index, index, tokp);
    if let Err(e) = market.deposit(10_000_000 * UNIT / index.max(1) + 1, 0, p0).and_then(|a| a.execute()) { return Some(format!("SETUP-ERR {e}")); }
    if let Err(e) = market.deposit(0, 10_000_000 * UNIT / tokp.max(1) + 1, p0).and_then(|a| a.execute()) { return Some(format!("SETUP-ERR {e}")); }
    let mut pos: Vec<TestPosition<u128, 20>> = vec![
        TestPosition::long(true), TestPosition::long(true), TestPosition::long(false), TestPosition::long(false),
        TestPosition::short(true), TestPosition::short(true), TestPosition::short(false), TestPosition::short(false),
    ];
    let mut out = String::new();
    for step in 0..nops {
        let k = (rnd() % 8) as usize;
        let kind = rnd() % 10;
        // prices move a little around the base
        let ip = index + index * (rnd() % 7) / 50 - index * (rnd() % 7) / 50;
        let ip = ip.max(1);
        let prices = Prices::new_for_test(ip, if k % 4 < 2 || true { ip } else { ip }, tokp);
        let saved_market = market.clone();
        let saved_pos = pos[k];
        let is_collateral_long = k % 4 < 2;
        let col_price = if is_collateral_long { ip } else { tokp };
        let (desc, ok, removed);
        if kind < 4 {
            // increase: size in {0, $2 .. $2000}, collateral worth 1/2 .. 1/10 of it (or a top-up only)
            let size = if rnd() % 6 == 0 { 0 } else { (2 + rnd() % 2000) * UNIT / (1 + rnd() % 3) };
            let col = (size.max(2 * UNIT) / (2 + rnd() % 9)) / col_price.max(1) + rnd() % 3;
            desc = format!("increase {k} {col} {size}");
            let r = pos[k].ops(&mut market).increase(prices, col, size, None).and_then(|a| a.execute());
            ok = r.is_ok(); removed = false;
        } else if kind < 9 {
            let cur = { let o = pos[k].ops(&mut market); *o.size_in_usd() };
            // decrease: everything, almost everything, a sliver, a random part, or nothing (collateral withdrawal only)
            let size = match rnd() % 6 { 0 => cur, 1 => cur.saturating_sub(UNIT + rnd() % UNIT), 2 => rnd() % 3 * UNIT + rnd(), 3 => 0, _ => if cur == 0 { 0 } else { rnd() % cur } };
            let wd = if rnd() % 3 == 0 { rnd() % 1000 } else { 0 };
            desc = format!("decrease {k} {size} {wd}");
            let mut flags = DecreasePositionFlags::default();
            flags.is_cap_size_delta_usd_allowed = rnd() % 2 == 0;
            let r = pos[k].ops(&mut market).decrease(prices, size, None, wd, flags).and_then(|a| a.execute());
            ok = r.is_ok(); removed = r.map(|rep| rep.should_remove()).unwrap_or(false);
        } else {
            let secs = (1 + rnd() % 3600) as u64;
            market.move_clock_forward(std::time::Duration::from_secs(secs));
            desc = format!("clock {secs} 0 0"); ok = true; removed = false;
        }
        if !ok { market = saved_market; pos[k] = saved_pos; continue; }
        out.push_str(&format!("{step} {desc} {removed} |"));
        for j in 0..8 {
            let o = pos[j].ops(&mut market);
            out.push_str(&format!(" {},{},{}", o.size_in_usd(), o.size_in_tokens(), o.collateral_amount()));
        }
        for which in 0..3 {
            out.push_str(" |");
            for is_long in [true, false] {
                let pool = match which { 0 => market.open_interest_pool(is_long), 1 => market.open_interest_in_tokens_pool(is_long), _ => market.collateral_sum_pool(is_long) }.ok()?;
                out.push_str(&format!(" {} {}", pool.long_amount().ok()?, pool.short_amount().ok()?));
            }
        }
        out.push(';');
    }
    Some(out)
}


/// `roundtrip.run <seed> <n> <index price> <short token price>`: on the model crate's own `TestMarket<u128, 20>`, after a pseudo-random
/// warm-up of other positions (so that the open interest is skewed and price impact is not zero), `n` times: open a fresh position
/// (random side, collateral token, size, collateral) and close it in full at the SAME prices with no time passing (on a copy of the
/// market, so every trial starts from the same state). Output per trial: `<side> <collateral long?> <collateral in> <size> |
/// <output amount> <secondary output amount> <output is long?> <secondary is long?> | <claimable for user: output, secondary> |
/// <claimable funding long, short> | <prices: index, long, short>;`. The oracle (value out <= value in + rounding) is on the Python side.
fn roundtrip(name: &str, a: &[String]) -> Option<String> {
    use gmsol_model::action::decrease_position::DecreasePositionFlags;
    use gmsol_model::price::Prices;
    use gmsol_model::test::{TestMarket, TestPosition};
    use gmsol_model::{LiquidityMarketMutExt, MarketAction, PositionMutExt, PositionState};
    if name != "run" { return None; }
    const UNIT: u128 = 100_000_000_000_000_000_000;
    let mut seed: u64 = a[0].parse().ok()?;
    let n: usize = a[1].parse().ok()?;
    let index: u128 = a[2].parse().ok()?;
    let tokp: u128 = a[3].parse().ok()?;
    let mut rnd = move || { seed = seed.wrapping_mul(6364136223846793005).wrapping_add(1442695040888963407); (seed >> 33) as u128 };
    // optional 5th / 6th argument: positive / negative position impact factor (default configuration otherwise)
    let mut market = if a.len() >= 6 {
        let mut config = gmsol_model::test::TestMarketConfig::<u128, 20>::default();
        config.position_impact_params = gmsol_model::params::PriceImpactParams::builder()
            .exponent(200_000_000_000_000_000_000).positive_factor(a[4].parse().ok()?).negative_factor(a[5].parse().ok()?).build();
        TestMarket::<u128, 20>::with_config(config)
    } else { TestMarket::<u128, 20>::default() };
    let prices = Prices::new_for_test(index, index, tokp);
    if let Err(e) = market.deposit(10_000_000 * UNIT / index.max(1) + 1, 0, prices).and_then(|a| a.execute()) { return Some(format!("SETUP-ERR {e}")); }
    if let Err(e) = market.deposit(0, 10_000_000 * UNIT / tokp.max(1) + 1, prices).and_then(|a| a.execute()) { return Some(format!("SETUP-ERR {e}")); }
    // warm-up: a few other positions
    let mut others: Vec<TestPosition<u128, 20>> = vec![TestPosition::long(true), TestPosition::long(false), TestPosition::short(true), TestPosition::short(false)];
    for k in 0..4 {
        if rnd() % 4 == 0 { continue; }
        let size = (10 + rnd() % 50_000) * UNIT;
        let col_price = if k % 2 == 0 { index } else { tokp };
        let col = size / 3 / col_price.max(1) + 1;
        let saved = market.clone(); let sp = others[k];
        if others[k].ops(&mut market).increase(prices, col, size, None).and_then(|a| a.execute()).is_err() { market = saved; others[k] = sp; }
    }
    let mut out = String::new();
    for _ in 0..n {
        let mut m = market.clone();
        let is_long = rnd() % 2 == 0; let col_long = rnd() % 2 == 0;
        let mut pos: TestPosition<u128, 20> = if is_long { TestPosition::long(col_long) } else { TestPosition::short(col_long) };
        let size = match rnd() % 4 { 0 => (2 + rnd() % 50) * UNIT + rnd(), 1 => (1 + rnd() % 100_000) * UNIT, _ => (2 + rnd() % 3000) * UNIT / (1 + rnd() % 7) };
        let col_price = if col_long { index } else { tokp };
        let col = size.max(2 * UNIT) / (1 + rnd() % 20) / col_price.max(1) + 1 + rnd() % 3;
        if pos.ops(&mut m).increase(prices, col, size, None).and_then(|a| a.execute()).is_err() { continue; }
        let cur = { let o = pos.ops(&mut m); *o.size_in_usd() };
        let Ok(rep) = pos.ops(&mut m).decrease(prices, cur, None, 0, DecreasePositionFlags::default()).and_then(|a| a.execute()) else { continue };
        let fu = rep.claimable_collateral_for_user();
        let (fl, fs) = rep.claimable_funding_amounts();
        out.push_str(&format!("{} {} {col} {size} | {} {} {} {} | {} {} | {fl} {fs} | {index} {index} {tokp} | {};",
            is_long, col_long, rep.output_amount(), rep.secondary_output_amount(), rep.is_output_token_long(), rep.is_secondary_output_token_long(),
            fu.output_token_amount(), fu.secondary_output_token_amount(), rep.should_remove()));
    }
    Some(out)
}


/// shim for the two crate-local names used by crates/sdk/src/utils/fixed.rs
pub mod sdk_shim {
    pub const MARKET_DECIMALS: u8 = 20;
    #[derive(Debug)]
    pub struct Error(pub String);
    impl Error { pub fn custom(e: impl std::fmt::Display) -> Self { Error(e.to_string()) } }
    pub type Result<T> = std::result::Result<T, Error>;
}
/// the TEXT of crates/sdk/src/utils/fixed.rs (everything above its test module), spliced in by engine/replay.py
#[allow(dead_code, unused_imports, clippy::all)]
pub mod sdk_fixed { include!(concat!(env!("CARGO_MANIFEST_DIR"), "/gen/sdk_fixed.rs")); }

/// `sdkfixed.<fn> <args>`: u2d <u128> <decimals> | s2d <i128> <decimals> | ua2d <u64> <decimals> | sa2d <i64> <decimals> (-> Decimal as
/// `mantissa/scale` or None) | d2a / d2sv / d2v <mantissa> <scale> <decimals> (Decimal given as i128 mantissa and scale -> Ok(n) / Err)
fn sdkfixed(name: &str, a: &[String]) -> Option<String> {
    use rust_decimal::Decimal;
    let show = |d: Decimal| format!("{}/{}", d.mantissa(), d.scale());
    let dec = |i: usize| -> Option<Decimal> { Decimal::try_from_i128_with_scale(a[i].parse::<i128>().ok()?, a[i + 1].parse::<u32>().ok()?).ok() };
    Some(match name {
        "u2d" => sdk_fixed::unsigned_fixed_to_decimal(a[0].parse().ok()?, a[1].parse().ok()?).map(show).unwrap_or("None".into()),
        "s2d" => sdk_fixed::signed_fixed_to_decimal(a[0].parse().ok()?, a[1].parse().ok()?).map(show).unwrap_or("None".into()),
        "ua2d" => show(sdk_fixed::unsigned_amount_to_decimal(a[0].parse().ok()?, a[1].parse().ok()?)),
        "sa2d" => show(sdk_fixed::signed_amount_to_decimal(a[0].parse().ok()?, a[1].parse().ok()?)),
        "d2a" => match dec(0) { Some(d) => sdk_fixed::decimal_to_amount(d, a[2].parse().ok()?).map(|v| format!("Ok({v})")).unwrap_or("Err".into()), None => "BadDecimal".into() },
        "d2sv" => match dec(0) { Some(d) => sdk_fixed::decimal_to_signed_value(d, a[2].parse().ok()?).map(|v| format!("Ok({v})")).unwrap_or("Err".into()), None => "BadDecimal".into() },
        "d2v" => match dec(0) { Some(d) => sdk_fixed::decimal_to_value(d, a[2].parse().ok()?).map(|v| format!("Ok({v})")).unwrap_or("Err".into()), None => "BadDecimal".into() },
        _ => return None,
    })
}

pub fn dispatch(name: &str, a: &[String]) -> Option<String> {
    if let Some(n) = name.strip_prefix("sdkfixed.") {
        return sdkfixed(n, a);
    }
    if let Some(n) = name.strip_prefix("roundtrip.") {
        return roundtrip(n, a);
    }
    if let Some(n) = name.strip_prefix("position.") {
        return position(n, a);
    }
    if let Some(n) = name.strip_prefix("swapcap.") {
        return swapcap(n, a);
    }
    if let Some(n) = name.strip_prefix("pimpact.") {
        return pimpact(n, a);
    }
    if let Some(n) = name.strip_prefix("funding.") {
        return funding(n, a);
    }
    if let Some(n) = name.strip_prefix("action.") {
        return action(n, a);
    }
    if let Some(n) = name.strip_prefix("impact.") {
        return impact(n, a);
    }
    if let Some(n) = name.strip_prefix("decimal.") {
        return decimal(n, a);
    }
    if let Some(n) = name.strip_prefix("u128.") {
        return width!(n, a, u128, i128, 20);
    }
    if let Some(n) = name.strip_prefix("u64.") {
        return width!(n, a, u64, i64, 9);
    }
    None
}
