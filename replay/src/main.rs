//! Native replay dispatcher: runs concrete inputs through the REAL functions of /repo (no stubs,
//! no models). Protocol: one call per stdin line `<fn> <arg> <arg> ...`; one result per stdout
//! line (`Some(v)` / `None` / `Ok(v)` / `Err` / plain value / `PANIC`). The oracle lives on the
//! Python side (engine/replay.py + contracts/*.py), written from the property statements.
use std::io::{self, BufRead, Write};

mod model_fns;

fn main() {
    let stdin = io::stdin();
    let stdout = io::stdout();
    let mut out = stdout.lock();
    std::panic::set_hook(Box::new(|_| {}));
    for line in stdin.lock().lines() {
        let line = line.unwrap();
        let toks: Vec<&str> = line.split_whitespace().collect();
        if toks.is_empty() {
            continue;
        }
        let name = toks[0].to_string();
        let args: Vec<String> = toks[1..].iter().map(|s| s.to_string()).collect();
        let r = std::panic::catch_unwind(move || model_fns::dispatch(&name, &args));
        match r {
            Ok(Some(s)) => writeln!(out, "{s}").unwrap(),
            Ok(None) => writeln!(out, "UNKNOWN-FN").unwrap(),
            Err(_) => writeln!(out, "PANIC").unwrap(),
        }
    }
}
